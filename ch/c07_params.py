"""CrossHair harness (C07, E2): lcm.input_processing.create_params_template._create_function_params.

A stand-in model object with functions of fixed signatures drawn from a pool; which pooled names are
states / choices and which functions are part of the model are symbolic flags."""
import inspect
from typing import Dict, List, Tuple

from lcm.grids import LinspaceGrid
from lcm.input_processing.create_params_template import _create_function_params
from lcm.user_model import Model

G = LinspaceGrid(start=0, stop=1, n_points=2)


def _utility(v1, v2, p1, f1, _period, zeta=2.0):
    return 0


def _f1(v2, v3, p1, p2):
    return 0


def _f2(f1, v1, p2, alpha=0.5):  # a free parameter WITH a python default is still a parameter
    return 0


def _next_v1(v1, v3, f1, p3, _period):
    return 0


def _v_constraint(v1, v2, v3, p1):
    return True


def _n_constraint(next_v1, v2, p1, p4):
    # consumes the OUTPUT of a transition function: next_v1 is a model function, not a parameter
    return True


POOL = {"utility": _utility, "f1": _f1, "f2": _f2, "next_v1": _next_v1, "v_constraint": _v_constraint, "n_constraint": _n_constraint}
VARS = ["v1", "v2", "v3"]


def _expected(funcs, states, choices) -> Dict[str, List[str]]:
    known = set(funcs) | set(states) | set(choices) | {"_period"}
    return {name: sorted(a for a in inspect.signature(f).parameters if a not in known) for name, f in funcs.items()}


def check_function_params(is_state: Tuple[bool, bool, bool], is_choice: Tuple[bool, bool, bool], has: Tuple[bool, bool]) -> bool:
    """
    the listed arguments of every function are exactly those that are not a state, a choice, a model
    function or the period; every value is initialised (nan)
    post: _
    """
    states = {v: G for v, s in zip(VARS, is_state) if s}
    choices = {v: G for v, s, c in zip(VARS, is_state, is_choice) if c and not s}
    funcs = {"utility": _utility}
    for name, on in zip(["f1", "next_v1"], has):
        if on:
            funcs[name] = POOL[name]
    if has[0] and has[1]:
        funcs["f2"] = _f2
        funcs["v_constraint"] = _v_constraint
    if has[1]:
        funcs["n_constraint"] = _n_constraint
    # a real Model object (validation bypassed: which names are states is symbolic here)
    model = object.__new__(Model)
    for k, v in (("n_periods", 2), ("functions", funcs), ("states", states), ("choices", choices), ("description", None)):
        object.__setattr__(model, k, v)
    got = _create_function_params(model)
    exp = _expected(funcs, states, choices)
    return list(got) == list(funcs) and all(list(got[k]) == exp[k] for k in funcs) and all(v != v for d in got.values() for v in d.values())
