"""CrossHair harness (C12, E2): lcm.user_model.Model validation with pooled names and symbolic flags."""
from typing import Tuple

from lcm.exceptions import ModelInitilizationError
from lcm.grids import LinspaceGrid
from lcm.user_model import Model

G = LinspaceGrid(start=0, stop=1, n_points=2)


def _f():
    return 0


SP = ["a", "b"]  # candidate states
CP = ["a", "c"]  # candidate choices ("a" can be declared as both)
FP = ["utility", "next_a", "next_b", "x"]
BAD_GRID = [G, 1, None, "grid"]
BAD_FUNC = [_f, 1, None]


def _num(bits) -> int:
    n = 0
    for b in bits:
        n = 2 * n + (1 if b else 0)
    return n


def check_model_rules(nb: Tuple[bool, bool], s: Tuple[bool, bool], c: Tuple[bool, bool], f: Tuple[bool, bool, bool, bool]) -> bool:
    """
    all combinations of the logical rules at once: n_periods in {-1,0,1,2}; accepted iff at least one
    period, a utility function, a next_ function for every state, no name that is state and choice
    post: _ == (_num(nb) - 1 >= 1 and f[0] and (not s[0] or f[1]) and (not s[1] or f[2]) and not (s[0] and c[0]))
    """
    states = {n: G for n, on in zip(SP, s) if on}
    choices = {n: G for n, on in zip(CP, c) if on}
    funcs = {n: _f for n, on in zip(FP, f) if on}
    try:
        Model(n_periods=_num(nb) - 1, functions=funcs, states=states, choices=choices)
    except ModelInitilizationError:
        return False
    return True


def check_model_types(gs: Tuple[bool, bool], gc: Tuple[bool, bool], fu: Tuple[bool, bool], dict_states: bool, dict_funcs: bool, str_key: bool) -> bool:
    """
    type rules: non-grid state/choice values, non-callable functions, non-dict containers, non-str keys
    are rejected with ModelInitilizationError (never another exception); valid types are accepted
    post: _ == (_num(gs) == 0 and _num(gc) == 0 and _num(fu) % 3 == 0 and dict_states and dict_funcs and str_key)
    """
    states = {"a": BAD_GRID[_num(gs)]} if dict_states else [("a", G)]
    choices = {("c" if str_key else 3): BAD_GRID[_num(gc)]}
    funcs = {"utility": BAD_FUNC[_num(fu) % 3], "next_a": _f} if dict_funcs else None
    try:
        Model(n_periods=1, functions=funcs, states=states, choices=choices)
    except ModelInitilizationError:
        return False
    return True


FP2 = ["next_a", "next_b", "a", "b", "next_", "anext_a"]  # look-alikes of the required transition names


def check_model_transition_names(s: Tuple[bool, bool], f: Tuple[bool, bool, bool, bool, bool, bool]) -> bool:
    """
    only a function called exactly next_<state> counts as the transition of a state: functions named
    like the state itself, "next_" or "<x>next_<state>" do not make a state without transition acceptable
    (accepted => every state has its next_ function); and a model whose states all have their next_
    function is accepted unless it also has a function named like a state (that shape is a known finding
    of C12 - rejecting it up front would be a legitimate repair, so nothing is claimed about it)
    post: ((not _) or ((not s[0] or f[0]) and (not s[1] or f[1]))) and (_ or not ((not s[0] or f[0]) and (not s[1] or f[1])) or f[2] or f[3])
    """
    states = {n: G for n, on in zip(SP, s) if on}
    funcs = {"utility": _f} | {n: _f for n, on in zip(FP2, f) if on}
    try:
        Model(n_periods=2, functions=funcs, states=states, choices={"c": G})
    except ModelInitilizationError:
        return False
    return True
