"""CrossHair harnesses (C19, E2): the keyword-only / positional wrappers of lcm.functools.

Each function calls the REAL lcm functions; values are symbolic ints and the keyword order is a
symbolic permutation `perm` (the insertion order of the kwargs dict).
"""
from typing import Dict, List, Tuple

from lcm.functools import all_as_args, all_as_kwargs, allow_args, allow_only_kwargs, convert_kwargs_to_args

# parameter names are deliberately NOT in alphabetical order
NAMES = ["q", "a", "m"]
NAMES4 = ["q", "a", "z", "m"]


def _f_mixed(q, /, a, *, m):
    return (q, a, m)


def _f_plain(q, a, m):
    return (q, a, m)


def _f_kwonly(*, q, a, m):
    return (q, a, m)


def _f4(q, a, *, z, m):
    return (q, a, z, m)


def check_convert(vals: Tuple[int, int, int], perm: Tuple[int, int, int]) -> List[int]:
    """
    pre: sorted(perm) == [0, 1, 2]
    post: _ == list(vals)
    """
    kwargs = {NAMES[i]: vals[i] for i in perm}  # insertion order = perm
    return convert_kwargs_to_args(kwargs, NAMES)


def check_convert_subset(vals: Tuple[int, int, int, int], perm: Tuple[int, int, int], drop: int) -> List[int]:
    """
    pre: sorted(perm) == [0, 1, 2] and 0 <= drop <= 3
    post: _ == [vals[i] for i in range(4) if i != drop]
    """
    present = [i for i in range(4) if i != drop]
    kwargs = {NAMES4[present[j]]: vals[present[j]] for j in perm}
    return convert_kwargs_to_args(kwargs, NAMES4)


def check_only_kwargs_mixed(vals: Tuple[int, int, int], perm: Tuple[int, int, int]) -> Tuple[int, int, int]:
    """
    pre: sorted(perm) == [0, 1, 2]
    post: _ == vals
    """
    kwargs = {NAMES[i]: vals[i] for i in perm}
    return allow_only_kwargs(_f_mixed)(**kwargs)


def check_only_kwargs_plain(vals: Tuple[int, int, int], perm: Tuple[int, int, int]) -> Tuple[int, int, int]:
    """
    pre: sorted(perm) == [0, 1, 2]
    post: _ == vals
    """
    kwargs = {NAMES[i]: vals[i] for i in perm}
    return allow_only_kwargs(_f_plain)(**kwargs)


def check_only_kwargs_kwonly(vals: Tuple[int, int, int], perm: Tuple[int, int, int]) -> Tuple[int, int, int]:
    """
    pre: sorted(perm) == [0, 1, 2]
    post: _ == vals
    """
    kwargs = {NAMES[i]: vals[i] for i in perm}
    return allow_only_kwargs(_f_kwonly)(**kwargs)


def check_only_kwargs_rejects(vals: Tuple[int, int, int], present: Tuple[bool, bool, bool], extra: bool, positional: bool) -> bool:
    """
    post: _ == (all(present) and not extra and not positional)
    """
    kwargs = {NAMES[i]: vals[i] for i in range(3) if present[i]}
    if extra:
        kwargs["zz"] = 0
    args = (1,) if positional else ()
    try:
        allow_only_kwargs(_f_mixed)(*args, **kwargs)
    except ValueError:
        return False
    return True


def check_allow_args_mixed(vals: Tuple[int, int, int], npos: int, perm: Tuple[int, int, int]) -> Tuple[int, int, int]:
    """
    pre: 0 <= npos <= 3 and sorted(perm) == [0, 1, 2]
    post: _ == vals
    """
    args = vals[:npos]
    kw = {NAMES[i]: vals[i] for i in perm if i >= npos}
    return allow_args(_f_mixed)(*args, **kw)


def check_allow_args_kwonly(vals: Tuple[int, int, int], npos: int, perm: Tuple[int, int, int]) -> Tuple[int, int, int]:
    """
    pre: 0 <= npos <= 3 and sorted(perm) == [0, 1, 2]
    post: _ == vals
    """
    args = vals[:npos]
    kw = {NAMES[i]: vals[i] for i in perm if i >= npos}
    return allow_args(_f_kwonly)(*args, **kw)


def check_allow_args_4(vals: Tuple[int, int, int, int], npos: int, perm: Tuple[int, int, int, int]) -> Tuple[int, int, int, int]:
    """
    pre: 0 <= npos <= 4 and sorted(perm) == [0, 1, 2, 3]
    post: _ == vals
    """
    args = vals[:npos]
    kw = {NAMES4[i]: vals[i] for i in perm if i >= npos}
    return allow_args(_f4)(*args, **kw)


def check_allow_args_rejects(vals: Tuple[int, int, int], npos: int, nkw: int) -> bool:
    """
    pre: 0 <= npos <= 4 and 0 <= nkw <= 3 and npos + nkw <= 5
    post: _ == (npos + nkw == 3 and npos <= 3)
    """
    args = tuple([7] * npos)
    kw = {NAMES[2 - i]: vals[2 - i] for i in range(nkw)}
    if npos + nkw == 3 and npos <= 3:
        # consistent split: first npos positional, the rest by keyword
        args = vals[:npos]
        kw = {NAMES[i]: vals[i] for i in range(npos, 3)}
    try:
        allow_args(_f_plain)(*args, **kw)
    except ValueError:
        return False
    except TypeError:
        return False
    return True


def check_all_as_kwargs(vals: Tuple[int, int, int], npos: int, perm: Tuple[int, int, int]) -> Dict[str, int]:
    """
    pre: 0 <= npos <= 3 and sorted(perm) == [0, 1, 2]
    post: _ == {"q": vals[0], "a": vals[1], "m": vals[2]}
    """
    args = vals[:npos]
    kw = {NAMES[i]: vals[i] for i in perm if i >= npos}
    return all_as_kwargs(args, kw, arg_names=NAMES)


def check_all_as_args(vals: Tuple[int, int, int], npos: int, perm: Tuple[int, int, int]) -> Tuple[int, ...]:
    """
    pre: 0 <= npos <= 3 and sorted(perm) == [0, 1, 2]
    post: _ == vals
    """
    args = vals[:npos]
    kw = {NAMES[i]: vals[i] for i in perm if i >= npos}
    return all_as_args(args, kw, arg_names=NAMES)


def _f_defaults(q, a=-2, m=-3):
    return (q, a, m)


def _f_kw_defaults(q, *, a=-2, m=-3):
    return (q, a, m)


def check_only_kwargs_defaults(vals: Tuple[int, int, int], present: Tuple[bool, bool, bool], kwonly: bool) -> Tuple[int, int, int]:
    """
    parameters WITH default values: a call that leaves one out is rejected (never silently re-bound),
    a complete call binds every value to the parameter of the same name
    post: (_ == (0, 0, 0) and not all(present)) or (_ == vals and all(present))
    """
    f = _f_kw_defaults if kwonly else _f_defaults
    kwargs = {NAMES[i]: vals[i] for i in (2, 0, 1) if present[i]}
    try:
        return allow_only_kwargs(f)(**kwargs)
    except ValueError:
        return (0, 0, 0) if not all(present) else (-1, -1, -1)


def check_allow_args_defaults(vals: Tuple[int, int, int], npos: int) -> Tuple[int, int, int]:
    """
    pre: 0 <= npos <= 3
    post: _ == vals
    """
    args = vals[:npos]
    kw = {NAMES[i]: vals[i] for i in range(npos, 3)}
    return allow_args(_f_kw_defaults)(*args, **kw)


# ---- one wrapper OBJECT called repeatedly: the result of a call depends on that call's arguments only ----
def check_only_kwargs_two_calls(vals: Tuple[int, int, int], vals2: Tuple[int, int, int], perm: Tuple[int, int, int], perm2: Tuple[int, int, int]) -> Tuple[Tuple[int, int, int], Tuple[int, int, int]]:
    """
    the same wrapper object is called twice, with other values and another keyword order
    pre: sorted(perm) == [0, 1, 2] and sorted(perm2) == [0, 1, 2]
    post: _ == (vals, vals2)
    """
    w = allow_only_kwargs(_f_plain)
    first = w(**{NAMES[i]: vals[i] for i in perm})
    second = w(**{NAMES[i]: vals2[i] for i in perm2})
    return (first, second)


def check_only_kwargs_two_calls_mixed(vals: Tuple[int, int, int], vals2: Tuple[int, int, int], perm: Tuple[int, int, int], perm2: Tuple[int, int, int]) -> Tuple[Tuple[int, int, int], Tuple[int, int, int]]:
    """
    pre: sorted(perm) == [0, 1, 2] and sorted(perm2) == [0, 1, 2]
    post: _ == (vals, vals2)
    """
    w = allow_only_kwargs(_f_mixed)
    first = w(**{NAMES[i]: vals[i] for i in perm})
    second = w(**{NAMES[i]: vals2[i] for i in perm2})
    return (first, second)


def check_allow_args_two_calls(vals: Tuple[int, int, int], vals2: Tuple[int, int, int], npos: int, perm: Tuple[int, int, int]) -> Tuple[Tuple[int, int, int], Tuple[int, int, int]]:
    """
    one allow_args wrapper object: a call with npos positional arguments and keyword order perm, then
    a call with keywords only in reversed order
    pre: sorted(perm) == [0, 1, 2] and 0 <= npos <= 3
    post: _ == (vals, vals2)
    """
    w = allow_args(_f_kwonly)
    first = w(*[vals[i] for i in range(npos)], **{NAMES[i]: vals[i] for i in perm if i >= npos})
    second = w(**{NAMES[i]: vals2[i] for i in (2, 1, 0)})
    return (first, second)
