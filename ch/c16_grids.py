"""CrossHair harnesses (C16/C12, E2): grid constructors of lcm.grids with symbolic arguments."""
import math
from dataclasses import make_dataclass
from typing import List, Optional, Tuple, Union

from lcm.exceptions import GridInitializationError
from lcm.grids import DiscreteGrid, LinspaceGrid, LogspaceGrid

Num = Union[int, float, bool, str, None]


def _finite_number(x) -> bool:
    return isinstance(x, (int, float)) and math.isfinite(x)


def _lin_ok(start, stop, n) -> bool:
    """necessary for `n finite strictly increasing values, first == start, last == stop (n >= 2)`"""
    if not (isinstance(n, int) and n >= 1 and _finite_number(start)):
        return False
    if n >= 2 and not (_finite_number(stop) and start < stop):
        return False
    return True


def _log_ok(start, stop, n) -> bool:
    if not (isinstance(n, int) and n >= 1 and _finite_number(start) and start >= 0):
        return False
    if n >= 2 and not (_finite_number(stop) and 0 < start < stop):
        return False
    return True


def _array_ok(cls, start, stop, n):
    """concrete replay: build the grid for real and inspect its array form"""
    import numpy as np

    try:
        g = cls(start=start, stop=stop, n_points=n)
    except GridInitializationError:
        return None
    try:
        arr = np.asarray(g.to_jax(), dtype=float)
    except Exception as e:  # noqa: BLE001
        return {"what": f"accepted grid {cls.__name__}({start}, {stop}, {n}) cannot be materialised: {type(e).__name__}", "observed": str(e)[:100], "expected": "n finite increasing values"}
    ok = arr.shape == (n,) and bool(np.all(np.isfinite(arr))) and bool(np.all(np.diff(arr) > 0)) and arr[0] == start and (n < 2 or arr[-1] == stop)
    if ok:
        return None
    return {"what": f"accepted grid {cls.__name__}(start={start}, stop={stop}, n_points={n}) does not materialise as specified", "observed": [float(x) for x in arr], "expected": "n finite strictly increasing values from start to stop"}


def replay_check_linspace_accept(start, stop, nb):
    return _array_ok(LinspaceGrid, start, stop, _num(nb) - 1)


def replay_check_logspace_accept(start, stop, nb):
    return _array_ok(LogspaceGrid, start, stop, _num(nb) - 1)


def replay_check_kinds_linspace(i, j, k):
    return _array_ok(LinspaceGrid, POOL[_num(i)], POOL[_num(j)], KPOOL[_num(k)])


def replay_check_kinds_logspace(i, j, k):
    return _array_ok(LogspaceGrid, POOL[_num(i)], POOL[_num(j)], KPOOL[_num(k)])


def check_linspace_accept(start: float, stop: float, nb: Tuple[bool, bool, bool]) -> bool:
    """
    symbolic float bounds (incl. nan, +-inf); n_points in [-1, 6] (bool-encoded, see NOTE below)
    post: (not _) or _lin_ok(start, stop, _num(nb) - 1)
    """
    try:
        LinspaceGrid(start=start, stop=stop, n_points=_num(nb) - 1)
    except GridInitializationError:
        return False
    return True


def check_logspace_accept(start: float, stop: float, nb: Tuple[bool, bool, bool]) -> bool:
    """
    post: (not _) or _log_ok(start, stop, _num(nb) - 1)
    """
    try:
        LogspaceGrid(start=start, stop=stop, n_points=_num(nb) - 1)
    except GridInitializationError:
        return False
    return True


def check_linspace_valid_is_accepted(start: float, stop: float, n_points: int) -> bool:
    """
    pre: math.isfinite(start) and math.isfinite(stop) and start < stop and n_points >= 1
    post: _
    """
    try:
        LinspaceGrid(start=start, stop=stop, n_points=n_points)
    except GridInitializationError:
        return False
    return True


def check_logspace_valid_is_accepted(start: float, stop: float, n_points: int) -> bool:
    """
    pre: math.isfinite(start) and math.isfinite(stop) and 0 < start < stop and n_points >= 1
    post: _
    """
    try:
        LogspaceGrid(start=start, stop=stop, n_points=n_points)
    except GridInitializationError:
        return False
    return True


POOL = [None, "1", 1.0, 2, True, float("nan"), float("inf"), -1]
KPOOL = [1, 0, 2.0, None, True, -1, "3", 3]


def _num(bits) -> int:
    n = 0
    for b in bits:
        n = 2 * n + (1 if b else 0)
    return n


def check_kinds_linspace(i: Tuple[bool, bool, bool], j: Tuple[bool, bool, bool], k: Tuple[bool, bool, bool]) -> bool:
    """
    arguments of every kind (non-numeric, bool, non-finite, negative) drawn from POOL / KPOOL:
    accepted only if finite numbers with start < stop and an int n_points >= 1; and never any
    exception other than GridInitializationError
    post: (not _) or _lin_ok(POOL[_num(i)], POOL[_num(j)], KPOOL[_num(k)])
    """
    try:
        LinspaceGrid(start=POOL[_num(i)], stop=POOL[_num(j)], n_points=KPOOL[_num(k)])
    except GridInitializationError:
        return False
    return True


def check_kinds_logspace(i: Tuple[bool, bool, bool], j: Tuple[bool, bool, bool], k: Tuple[bool, bool, bool]) -> bool:
    """
    post: (not _) or _log_ok(POOL[_num(i)], POOL[_num(j)], KPOOL[_num(k)])
    """
    try:
        LogspaceGrid(start=POOL[_num(i)], stop=POOL[_num(j)], n_points=KPOOL[_num(k)])
    except GridInitializationError:
        return False
    return True


# ---- discrete grids: fixed dataclasses (created at import), symbolic field values -----------
from dataclasses import dataclass  # noqa: E402


@dataclass
class _C1:
    c0: object = 0


@dataclass
class _C2:
    c0: object = 0
    c1: object = 1


@dataclass
class _C3:
    c0: object = 0
    c1: object = 1
    c2: object = 2


@dataclass
class _C0:
    pass


@dataclass
class _C4:
    c0: object = 0
    c1: object = 1
    c2: object = 2
    c3: object = 3


_CLS = [_C0, _C1, _C2, _C3, _C4]


def _codes_ok(values) -> bool:
    if len(values) == 0:
        return False
    for i, v in enumerate(values):
        if not isinstance(v, (int, float)):
            return False
        if v != i:
            return False
    return True


def _mk(values):
    cls = _CLS[len(values)]
    for i, v in enumerate(values):
        setattr(cls, f"c{i}", v)
    return cls


# NOTE: small numbers are passed as tuples of bools: CrossHair realises symbolic ints when lcm
# formats them into error messages, which makes the path tree infinite; bools keep it finite.


def check_discrete_accept_iff_int(nb: Tuple[bool, bool], v0: Tuple[bool, bool], v1: Tuple[bool, bool], v2: Tuple[bool, bool]) -> bool:
    """
    0-3 fields with int values in [-1, 2] (valid codes, negatives, gaps, duplicates, wrong order)
    post: _ == _codes_ok([_num(v0) - 1, _num(v1) - 1, _num(v2) - 1][: _num(nb)])
    """
    values = [_num(v0) - 1, _num(v1) - 1, _num(v2) - 1][: _num(nb)]
    try:
        DiscreteGrid(_mk(values))
    except GridInitializationError:
        return False
    return True


DPOOL = [None, "0", 0, 1, 1.0, True, float("nan"), 2]
NPOOL = [0, 1, 2, 1.0]


def check_discrete_accept_iff_kinds2(nb: Tuple[bool, bool], i: Tuple[bool, bool, bool], j: Tuple[bool, bool, bool]) -> bool:
    """
    0-2 fields with values of every kind (None, str, int, float, bool, nan) drawn from DPOOL
    post: _ == _codes_ok([DPOOL[_num(i)], DPOOL[_num(j)]][: min(_num(nb), 2)])
    """
    try:
        DiscreteGrid(_mk([DPOOL[_num(i)], DPOOL[_num(j)]][: min(_num(nb), 2)]))
    except GridInitializationError:
        return False
    return True


def check_discrete_accept_iff_kinds3(i: Tuple[bool, bool], j: Tuple[bool, bool], k: Tuple[bool, bool]) -> bool:
    """
    three fields with int / float values drawn from NPOOL
    post: _ == _codes_ok([NPOOL[_num(i)], NPOOL[_num(j)], NPOOL[_num(k)]])
    """
    try:
        DiscreteGrid(_mk([NPOOL[_num(i)], NPOOL[_num(j)], NPOOL[_num(k)]]))
    except GridInitializationError:
        return False
    return True


MPOOL = [None, "a", 0, 1]


def check_discrete_accept_iff_kinds4(i: Tuple[bool, bool], j: Tuple[bool, bool], k: Tuple[bool, bool], l: Tuple[bool, bool]) -> bool:
    """
    four fields with values None / str / 0 / 1: includes classes with SEVERAL duplicated values of
    kinds that cannot be ordered or compared numerically (None+None+0+0, "a"+"a"+1+1, ...): never valid,
    and always rejected with the grid initialization error (no other exception)
    post: _ is False
    """
    try:
        DiscreteGrid(_mk([MPOOL[_num(i)], MPOOL[_num(j)], MPOOL[_num(k)], MPOOL[_num(l)]]))
    except GridInitializationError:
        return False
    return True


def check_discrete_codes(nb: Tuple[bool, bool], v0: Tuple[bool, bool], v1: Tuple[bool, bool], v2: Tuple[bool, bool]) -> Tuple:
    """
    post: _ == () or list(_) == list(range(_num(nb)))
    """
    values = [_num(v0) - 1, _num(v1) - 1, _num(v2) - 1][: _num(nb)]
    try:
        g = DiscreteGrid(_mk(values))
    except GridInitializationError:
        return ()
    return g.codes


NONDC = [0, 1, "a", None, (0, 1), int, dict, 1.5]


def check_discrete_non_dataclass(i: Tuple[bool, bool, bool]) -> bool:
    """
    post: _ is False
    """
    try:
        DiscreteGrid(NONDC[_num(i)])
    except GridInitializationError:
        return False
    return True


# ---- category classes with ClassVar / InitVar attributes (not fields) --------------------------
from dataclasses import InitVar  # noqa: E402
from typing import ClassVar  # noqa: E402


@dataclass
class _CV_valid:
    working: int = 0
    retired: int = 1
    label: ClassVar[str] = "x"


@dataclass
class _CV_count:
    bad: int = 0
    good: int = 1
    n_categories: ClassVar[int] = 2


@dataclass
class _CV_gap:
    a: int = 0
    filler: ClassVar[int] = 1
    b: int = 2


@dataclass
class _IV_scale:
    lo: int = 0
    hi: int = 1
    scale: InitVar[int] = 2


@dataclass
class _CV_only:
    only: ClassVar[int] = 0


CVPOOL = [_CV_valid, _CV_count, _CV_gap, _IV_scale, _CV_only, _C2, _C1, _C0]


def _field_values(cls):
    import dataclasses

    return [getattr(cls, f.name, None) for f in dataclasses.fields(cls)]


def check_discrete_pseudo_fields(i: Tuple[bool, bool, bool]) -> Tuple:
    """
    only the dataclass FIELDS count: ClassVar / InitVar attributes are neither categories nor codes
    post: (_ == ("rejected",) and not _codes_ok(_field_values(CVPOOL[_num(i)]))) or (list(_) == _field_values(CVPOOL[_num(i)]) and _codes_ok(list(_)))
    """
    cls = CVPOOL[_num(i)]
    if cls in (_C2, _C1):
        for k in range(2):
            setattr(cls, f"c{k}", k)
    try:
        g = DiscreteGrid(cls)
    except GridInitializationError:
        return ("rejected",)
    return g.codes
