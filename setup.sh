#!/bin/bash
# Builds /verif/.venv: an overlay on the repository's own /venv (so the real lcm, jax, dags,
# pandas are the ones analysed) plus z3-solver, cvc5, crosshair-tool from the offline wheelhouse.
# Idempotent; every check calls it if .venv is missing.
set -e
cd "$(dirname "$0")"
V=/verif/.venv
if [ -x $V/bin/python ] && $V/bin/python -c "import z3, crosshair, jax, lcm" 2>/dev/null; then
  exit 0
fi
rm -rf $V
/venv/bin/python -m venv $V
SP=$($V/bin/python -c "import site; print(site.getsitepackages()[0])")
printf '/venv/lib/python3.12/site-packages\n/repo/src\n' > $SP/_overlay.pth
PIP_NO_INDEX=1 $V/bin/python -m pip install -q --no-index --find-links /opt/veriftools/wheels z3-solver cvc5 crosshair-tool jsonschema 2>&1 | tail -3
$V/bin/python -c "import z3, crosshair, jax, dags; print('venv ok', z3.get_version_string())"
