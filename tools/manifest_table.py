add("C15",
    "Bounded SMT check of the real kernels: map_coordinates equals the multilinear blend for every array and every coordinate "
    "(one query per cell incl. both extrapolation regions) for ranks 1-4 and the listed shapes; linear/log grid coordinates are "
    "exact inverses of the materialised grids for symbolic bounds. Holds for all real-valued inputs of those shapes.",
    "real-number model of floats; shapes/ranks as listed in evidence; log grids inside the range with exp/log as axiomatised "
    "uninterpreted functions; n_points-1 a power of two for materialised linear grids",
    "DESIGN.md section 7 C15")
add("C18",
    "Bounded SMT check of the real arg-max primitives on symbolic arrays, symbolic masks and therefore all tie patterns: "
    "returned position is the first unmasked maximiser (0 if all masked), returned value the masked maximum; segment_argmax "
    "returns a row of the segment attaining its maximum; max/segment_max reductions equal the maximum over all discrete "
    "choice combinations of each state. Eager and inside jax.jit (with a fused upstream producer).",
    "real-number model of floats (XLA double-rounding of fused producers is outside the claim); shapes, axes subsets and "
    "segmentations as listed in evidence",
    "DESIGN.md section 7 C18")
add("C14",
    "Bounded SMT check of get_function_representation for hand-built and real spaces with symbolic value array, symbolic "
    "continuous inputs (one query per interpolation cell incl. extrapolation), symbolic labels and a fully symbolic feasibility "
    "indexer: result equals label/indexer lookup + multilinear blend; stored values at nodes; log grids via axiomatised exp/log.",
    "real-number model of floats; space shapes as listed; indexer entry of the addressed combination assumed >= 0; log grids "
    "inside the range",
    "DESIGN.md section 7 C14")
add("C19",
    "Dispatchers: symbolic execution with a truly uninterpreted mapped function (custom JAX primitive -> z3 UF), so every entry of "
    "productmap/vmap_1d/spacemap outputs is decided equal to F(x1[i1],...) for all listed name orders; wrappers: CrossHair "
    "confirms over all paths that values are bound by name for every keyword order and that missing/unexpected arguments are rejected.",
    "functions of 3-5 parameters, name subsets up to length 3, input lengths 2-3; CrossHair per-condition timeout 60 s with a "
    "refuted reachability twin per condition",
    "DESIGN.md section 7 C19", technique="symbolic execution of the real JAX code with an uninterpreted-function primitive + z3; CrossHair (z3) on the pure-Python wrappers", engine="symjax+crosshair")
add("C20",
    "Bounded SMT check of the real extreme-value aggregation code with symbolic values and symbolic scale>0, exp/log as "
    "axiomatised uninterpreted functions (Ackermannised to real arithmetic): equals s*log(sum exp(v/s)) in both layouts; "
    "stability (no exp argument > 0, one is 0, log argument in [1,n]) for inputs of any magnitude; max <= result <= max + s*log n; "
    "shift equivariance.",
    "real-number model of floats; exp/log axioms are true facts about the real functions (unsat is sound; sat answers are replayed "
    "in floats, stability counterexamples with inputs of magnitude 1e6); group sizes <= 6",
    "DESIGN.md section 7 C20")
add("C16",
    "Constructors: CrossHair on the real LinspaceGrid/LogspaceGrid/DiscreteGrid constructors with symbolic float bounds (nan, "
    "+-inf modelled), symbolic sizes and arguments of every kind: accepted grids have finite, ordered bounds and a positive int "
    "size (log: positive start), valid arguments are accepted, only GridInitializationError is raised; DiscreteGrid accepted iff "
    "the field values are numerically 0,1,2,... Materialisation: symbolic execution of Grid.to_jax with symbolic start<stop: n "
    "values, first == start, last == stop, strictly increasing, equally spaced (linear / log scale).",
    "CrossHair per-condition timeout 90 s (Confirmed over all paths + refuted reachability twin); small ints passed as bool tuples; "
    "materialisation n_points 1..9, real-number model of floats, exp/log axiomatised",
    "DESIGN.md section 7 C16", technique="CrossHair (symbolic execution of Python + z3) on the constructors; symbolic execution of the JAX materialisation + z3", engine="symjax+crosshair")
add("C01",
    "Bounded SMT check of the real solve pipeline: get_lcm_function(model,'solve') is executed symbolically on symbolic params "
    "for a family of model templates (continuous/discrete states and choices, filters, constraints, auxiliary functions, "
    "period dependence, stochastic transitions with symbolic probabilities, colliding parameter names) and every entry of every "
    "period's value array is decided equal to an independent backward-induction reference, including the -inf flag; JIT on/off. "
    "Period t is checked as one Bellman step from an arbitrary next-period array once period t+1 has been established (induction).",
    "real-number model of floats; template family, grid sizes (<=5, thorough up to 33x17) and horizons (<=3, thorough up to 10) as listed in "
    "evidence; template preconditions = the property's 'supported model' conditions",
    "DESIGN.md section 7 C01")
add("C05",
    "For every listed declaration order of states, choices and functions the real solve function is executed symbolically and "
    "compared entry by entry with the reference through the documented axis layout, which is computed from the declaration order "
    "of the user's dicts only; separating utilities make any transposed or mis-ranked axis a satisfiable obligation with a concrete "
    "parameter set as witness.",
    "real-number model of floats; 9 templates incl. excluded restricted-state combinations and a period-dependent filter; quick 6 "
    "orders per template, thorough all orders of states/choices x 3 function orders",
    "DESIGN.md section 7 C05")
add("C10",
    "Pairs of symbolic runs of the real solve function on equivalent write-ups (permutations, consistent renaming, added "
    "always-true constraint/filter, filter vs constraint); values of all states that remain in both spaces are decided equal for "
    "all parameter values.",
    "real-number model of floats; template family and rewriting families as listed in evidence; beta > 0 where a -inf value is "
    "discounted",
    "DESIGN.md section 7 C10")
add("C11",
    "Algebraic oracles between symbolic runs of the real solve function: affine utility transformation with symbolic a>0, b, "
    "beta; beta=0 gives the one-period maxima; horizon independence for T in {1,2,3} (thorough up to 5); degenerate stochastic transition (one-hot "
    "rows selected by symbolic integers) equals the deterministic model.",
    "real-number model of floats; template family and sizes as listed; for the 36-choice template the scale a is fixed to 2 and "
    "1/2; probability rows sum to one in the affine law",
    "DESIGN.md section 7 C11")
add("C02",
    "Bounded SMT check of the real simulate function (JIT on) with symbolic value arrays passed through vf_arr_list, symbolic "
    "params and agents with symbolic continuous states (on/off grid); data-dependent shapes are handled by forking over all "
    "satisfiable filter masks. Per path, period and agent: reported choices are grid values, satisfy all filters and constraints, "
    "the value equals Q(state, reported choice) and dominates Q(state, c) of every feasible grid choice (reference Q = "
    "u + beta*E[V_next]); ties symbolic. Later periods are checked from an arbitrary (abstracted) state.",
    "real-number model of floats; templates and sizes as listed in evidence (incl. filtered + unrestricted discrete choice + two "
    "continuous choices of unequal size); 1-3 agents, T<=2 (thorough 3), path cap 64; agents with some feasible choice",
    "DESIGN.md section 7 C02")
add("C03",
    "From symbolic runs of the real simulate function: period-0 states are the supplied initial states; every deterministic state "
    "of period t+1 equals the user's transition function at the agent's own period-t row; stochastic states move to an in-range "
    "label with positive probability in the row selected by the agent's period-t variables, for all probability arrays and all "
    "uniform draws.",
    "real-number model of floats; PRNG stub: a draw is an arbitrary u in [0,1) per key; templates/sizes as listed",
    "DESIGN.md section 7 C03")
add("C04",
    "Decidable core: with a symbolic seed and PRNG keys as terms of a free algebra, the label map is the exact inverse CDF of the "
    "selected row for all rows and all u (frequencies then follow from the trusted uniformity of the PRNG), zero-probability "
    "labels are never drawn, the keys consumed over periods x variables x agents are pairwise different for every seed and used "
    "once (independence under JAX's key contract), period 0 is seed-free, equal seeds give identical frames; counterexamples are "
    "replayed on a real eager run (keys consumed; probability rows handed to the draw vs rows selected by the simulated states, choices and period).",
    "statistical quality of threefry is trusted, not checked; 2-3 agents, T=2 (thorough 3-4); templates TE, TK",
    "DESIGN.md section 7 C04")
add("C13",
    "From symbolic runs of the real simulate function for 1-3 agents, 1-3 periods and subsets of additional targets: row count, "
    "period-major MultiIndex (period, initial_state_id), column set, _period == t, period-0 rows carry the supplied initial states, "
    "and every target cell equals the user's function evaluated on that row's cells and the params.",
    "real-number model of floats; templates and target sets as listed in evidence",
    "DESIGN.md section 7 C13")
add("C06",
    "Symbolic runs of solve, simulate(vf_arr_list=solve(params)) and solve_and_simulate with the same symbolic params: the two "
    "frames are equal cell by cell on all compatible paths, and for every period, agent and grid node g: state == g implies that "
    "the simulated value equals the solved array entry at g's index in the documented layout.",
    "real-number model of floats; templates and sizes as listed (TH fully discrete, all periods); quick tier: later periods of the "
    "36-choice template only in thorough",
    "DESIGN.md section 7 C06")
add("C08",
    "Pairs of symbolic runs of simulate on a batch and on its permutations, sub-batches, a batch with a duplicated agent and the "
    "mapping with reversed key order: corresponding rows are decided equal for all continuous states, params and value arrays on "
    "every pair of compatible paths; period-0 rows for stochastic models.",
    "real-number model of floats; 2-3 agents, T<=2, templates as listed",
    "DESIGN.md section 7 C08")
add("C07",
    "Template: CrossHair on _create_function_params with symbolic variable roles and function sets; concrete structure comparison of the "
    "returned template (keys, free arguments, shock array shapes for all dependency orders) with a reference derived from the user "
    "model only. Routing: symbolic execution of solve on templates with colliding parameter names bound to different symbols and on "
    "stochastic templates with one symbol per probability entry in several dependency orders; z3 decides every value entry equal to "
    "the reference in which each function gets the values stored under its own name (as C01).",
    "real-number model of floats; CrossHair timeout 200 s with refuted twin; templates as listed",
    "DESIGN.md section 7 C07", technique="CrossHair (z3) on the template builder; symbolic execution of the real JAX pipeline + z3 for routing", engine="symjax+crosshair")
add("C09",
    "Per PYTHONHASHSEED (fresh interpreter each): one generated solve and one generated simulate function object are executed "
    "symbolically in the history f(p1); f(p2); real XLA call on concrete params of three leaf types; f(p1); z3 decides third == "
    "first, second == reference(p2), rebuilt function == first build; concrete results equal the symbolic terms; model.functions and "
    "all argument containers/leaves are unchanged (identity); results are compared across the enumerated hash seeds. In-place "
    "history f(p); update the same dict p; f(p) for solve and solve_and_simulate == a fresh function on the new values.",
    "hash seeds/processes and call histories other than the enumerated ones are outside; real-number model of floats",
    "DESIGN.md section 7 C09")
add("C12",
    "Rejection: CrossHair on the real Model constructor (all combinations of rule violations via symbolic flags; only "
    "ModelInitilizationError) and the grid constructors; creation-time rejections of get_lcm_function per shape. Completion: per "
    "shape of a catalogue, jax.make_jaxpr(solve) (abstract tracing = no Python-level error for any parameter values of these "
    "shapes) and symbolic execution of simulate on all paths with symbolic params, value arrays and states; the import of the entry "
    "point. Seven accepted-but-failing shapes are recorded as known findings.",
    "catalogue of 31 accepted + 7 rejected shapes; 2 agents; CrossHair timeout 200 s; shapes outside the catalogue are outside the claim",
    "DESIGN.md section 7 C12", technique="CrossHair (z3) on the validators; abstract tracing + symbolic execution of the real JAX pipeline with path forking (z3) for completion", engine="symjax+crosshair")
add("C17",
    "(i) create_filter_mask is executed symbolically with every filter a symbolic boolean table over (period, its variables): each "
    "mask entry is decided equal to the conjunction of the filters on the product of the restricted grids in canonical axis order. "
    "(ii) the real bodies of create_combination_grid, _combine_masks, create_indexers_and_segments and create_state_choice_space "
    "run on a symbolic mask through a numpy look-alike with symbolic lengths: stored combinations = passing combinations in "
    "row-major order, state indexer = rank or -1, segments group by that rank, num_segments, full grids for unrestricted variables.",
    "mask shapes up to 12 (thorough 16) cells, 1-3 filters; the numpy look-alike (vf/symnp.py) is validated against real numpy on "
    "concrete masks on every run",
    "DESIGN.md section 7 C17", technique="symbolic execution of the real JAX code (filter mask) and of the real numpy function bodies on a symbolic-length array model + z3", engine="symjax+symnp")
