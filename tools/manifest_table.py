add("C15",
    "Bounded SMT check of the real kernels: map_coordinates equals the multilinear blend for every array and every coordinate "
    "(one query per cell incl. both extrapolation regions) for ranks 1-4 and the listed shapes; linear/log grid coordinates are "
    "exact inverses of the materialised grids for symbolic bounds. Holds for all real-valued inputs of those shapes.",
    "real-number model of floats; shapes/ranks as listed in evidence; log grids inside the range with exp/log as axiomatised "
    "uninterpreted functions; n_points-1 a power of two for materialised linear grids",
    "DESIGN.md section 7 C15")
