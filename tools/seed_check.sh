#!/bin/bash
# apply a seeded change to /repo, run the given checks (quick, no evidence), undo it
id=$1; shift
trap 'git -C /repo checkout -- . 2>/dev/null' EXIT
trap "" PIPE
git -C /repo apply /tmp/seed/out_$id/patch.diff 2>/dev/null || git -C /repo apply /verif/seeded/$id/patch.diff || { echo "patch does not apply"; exit 2; }
for c in "$@"; do
  out=$(/verif/check $c --no-evidence 2>&1); rc=$?
  echo "$out" | grep -E "^(C[0-9]+ tier|VIOLATION|HARNESS|INCONCL)" | cut -c1-240 | head -4
  echo "seed=$id check=$c exit=$rc"
done
git -C /repo checkout -- .
git -C /repo status --short
