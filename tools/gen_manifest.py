#!/usr/bin/env python3
"""regenerates /verif/MANIFEST.json from the table below (kept in one place so that it stays valid)"""
import json, os

TECH_E1 = "symbolic execution of the real JAX/Python code (custom JAX trace) + z3 SMT queries, bounded"
CHECKS = {}
NA = {}

def add(pid, text, note, design, technique=TECH_E1, engine="symjax"):
    CHECKS[pid] = dict(text=text, note=note, design=design, technique=technique, engine=engine)

exec(open(os.path.join(os.path.dirname(__file__), "manifest_table.py")).read())

props = [json.loads(l)["id"] for l in open("/verif/properties.jsonl")]
checks = []
for pid in props:
    if pid in CHECKS:
        c = CHECKS[pid]
        checks.append({
            "property_id": pid,
            "quick_cmd": f"./check {pid} --tier quick",
            "thorough_cmd": f"./check {pid} --tier thorough",
            "evidence_file": f"/verif/evidence/{pid}.json",
            "replay_cmd_template": f"./check {pid} --replay {{path}}",
            "engine": c["engine"],
            "level_claimed": {"category": "other", "text": c["text"], "design_ref": c["design"]},
            "level_note": c["note"],
            "technique": c["technique"],
        })
na = [{"property_id": pid, "reason": NA.get(pid, "check not built yet in this round; see DESIGN.md section 7")} for pid in props if pid not in CHECKS]
m = {
    "version": 1,
    "setup_cmd": "./setup.sh",
    "hooks": {
        "guard": "LCM_VERIF",
        "enable": "no source hooks are needed: the symbolic trace, the forking hook and the shadow import work from outside; LCM_VERIF is reserved and unused",
        "baseline_off_cmd": "cd /repo && /venv/bin/python -m pytest -ra -q -p no:cacheprovider --timeout=900 --continue-on-collection-errors",
        "source_commits": [],
        "add_only": True,
    },
    "engines": [
        {"name": "symjax", "path": "/verif/vf/symjax.py", "serves_properties": [p for p in props if p in CHECKS and CHECKS[p]["engine"] in ("symjax", "symjax+crosshair", "symjax+symnp")], "kind_free_text": "symbolic execution of the real lcm/JAX code: a custom jax.core.Trace gives every leaf primitive a z3 meaning; z3 decides per-element obligations"},
        {"name": "crosshair", "path": "/verif/ch", "serves_properties": [p for p in props if p in CHECKS and "crosshair" in CHECKS[p]["engine"]], "kind_free_text": "CrossHair (symbolic execution of Python with z3) on the pure-Python validators and wrappers"},
    ],
    "checks": checks,
    "not_applicable": na,
    "notes": "All checks: level 'other' = bounded SMT-based checking of the real code (not a proof, not sampling). Exit 0 held / 1 VIOLATION (replayed against the real float code) / 3 harness error. Known findings: /verif/known_findings.json.",
}
json.dump(m, open("/verif/MANIFEST.json", "w"), indent=1)
print("checks:", [c["property_id"] for c in checks], "not_applicable:", len(na))
