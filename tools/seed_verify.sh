#!/bin/bash
# confirm a seeded change in a scratch worktree: demo passes without / fails with the change, suite unchanged
id=$1; out=/tmp/seed/out_$id; wt=/tmp/seedverify_$id; log=/tmp/seed/verify_$id.log
trap "" PIPE
{
git -C /repo worktree remove --force $wt 2>/dev/null
git -C /repo worktree add --detach $wt HEAD >/dev/null 2>&1
cd $wt
PYTHONPATH=$wt/src timeout 1800 /venv/bin/python $out/demo.py > /tmp/seed/demo_clean_$id.log 2>&1; echo "demo_clean_exit=$?"
git apply $out/patch.diff || echo "PATCH DOES NOT APPLY"
PYTHONPATH=$wt/src timeout 1800 /venv/bin/python $out/demo.py > /tmp/seed/demo_mut_$id.log 2>&1; echo "demo_mut_exit=$?"
PYTHONPATH=$wt/src timeout 2400 /venv/bin/python -m pytest -q -p no:cacheprovider --timeout=900 tests 2>&1 | tail -5
cd /; git -C /repo worktree remove --force $wt
} > $log 2>&1
