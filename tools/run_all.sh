#!/bin/bash
# development helper: run every registered check of a tier, print one summary line each
tier=${1:-quick}
cd /verif
for id in $(python3 -c "import json; print(' '.join(c['property_id'] for c in json.load(open('MANIFEST.json'))['checks']))"); do
  s=$(date +%s)
  out=$(./check $id --tier $tier 2>&1); rc=$?
  echo "$id rc=$rc $(( $(date +%s) - s ))s | $(echo "$out" | grep -E "^C[0-9]+ tier" | tail -1)"
  echo "$out" | grep -E "^(VIOLATION|HARNESS-ERROR|INCONCLUSIVE)" | cut -c1-200 | head -5
done
