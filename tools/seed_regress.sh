#!/bin/bash
# development helper: apply every stored seeded change to /repo in turn, run the checks listed in its
# meta.json (caught_by) in the quick tier and expect exit 1 (VIOLATION); always restores /repo
cd /verif
trap 'git -C /repo checkout -- . 2>/dev/null' EXIT
trap "" PIPE
for d in seeded/*/; do
  id=$(basename $d)
  [ -n "$1" ] && [[ ! " $* " =~ " $id " ]] && continue
  checks=$(python3 -c "import json; print(' '.join(json.load(open('$d/meta.json'))['caught_by']))")
  git -C /repo apply /verif/$d/patch.diff || { echo "$id PATCH DOES NOT APPLY"; continue; }
  for c in $checks; do
    s=$(date +%s); out=$(timeout 1200 ./check $c --no-evidence 2>&1); rc=$?
    nv=$(echo "$out" | grep -c "^VIOLATION")
    echo "seed=$id check=$c exit=$rc violations=$nv $(( $(date +%s) - s ))s"
  done
  git -C /repo checkout -- .
done
git -C /repo status --short
echo REGRESS-DONE
