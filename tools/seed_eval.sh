#!/bin/bash
# usage: tools/seed_eval.sh <ID> [extra check ids...]   - confirms a seeded change in a scratch worktree and runs the checks against it
id=$1; shift
out=/tmp/seed/out_$id
wt=/tmp/seedverify_$id
trap "" PIPE
git -C /repo worktree remove --force $wt 2>/dev/null
git -C /repo worktree add --detach $wt HEAD >/dev/null 2>&1
cd $wt
echo "== demo on unchanged tree"; PYTHONPATH=$wt/src timeout 1200 /venv/bin/python $out/demo.py > /tmp/seed_demo_clean_$id.log 2>&1; echo "exit=$?"
git apply $out/patch.diff || { echo "PATCH DOES NOT APPLY"; exit 2; }
echo "== demo with change"; PYTHONPATH=$wt/src timeout 1200 /venv/bin/python $out/demo.py > /tmp/seed_demo_mut_$id.log 2>&1; echo "exit=$?"; tail -3 /tmp/seed_demo_mut_$id.log | cut -c1-300
echo "== test suite with change"; PYTHONPATH=$wt/src timeout 1800 /venv/bin/python -m pytest -q -p no:cacheprovider --timeout=900 tests 2>&1 | tail -5
cd /verif
git -C /repo worktree remove --force $wt
echo "== checks against the change"
git -C /repo apply $out/patch.diff
for c in $id "$@"; do
  /verif/check $c --no-evidence 2>&1 | grep -v "^WARNING" | grep -E "^(C[0-9]+ tier|VIOLATION|HARNESS|INCONCL)" | cut -c1-260 | head -6
  echo "check $c exit=${PIPESTATUS[0]}"
done
git -C /repo checkout -- .
git -C /repo status --short
