#!/bin/bash
# development helper: apply a one-line python-regex mutation to a file in /repo, run a check, restore.
# usage: tools/mut.sh <relative file> <python regex> <replacement> -- <check args...>
set -u
trap "" PIPE
trap 'cp /tmp/_mut_backup.py "$f" 2>/dev/null; rm -f /tmp/_mut_backup.py' EXIT
f=/repo/$1; pat=$2; rep=$3; shift 4
cp "$f" /tmp/_mut_backup.py
/usr/bin/python3 - "$f" "$pat" "$rep" <<'PY'
import re,sys
f,pat,rep=sys.argv[1:4]
s=open(f).read()
n=len(re.findall(pat,s))
if n==0: print("MUTATION PATTERN NOT FOUND"); sys.exit(2)
s=re.sub(pat,rep,s,count=1)
open(f,'w').write(s)
PY
rc=$?
if [ $rc -eq 0 ]; then
  (cd /repo && git diff --stat | tail -1)
  /verif/check "$@" --no-evidence 2>&1 | grep -v "^WARNING" | cut -c1-300 | tail -8
  echo "exit=${PIPESTATUS[0]}"
fi
cp /tmp/_mut_backup.py "$f"; rm -f /tmp/_mut_backup.py
(cd /repo && git status --short)
