"""E1 `symjax`: symbolic execution of real JAX code with z3 terms.

A `SymTrace` is installed as JAX's current trace.  Every primitive that lcm (or JAX's own
vmap / jit / jnp code) binds arrives at `SymTrace.process_primitive`.  Arrays are numpy
object arrays whose elements are concrete python values (bool, int, Fraction, -inf) or z3
terms (Bool / Int / Real), an `XR` (extended real, maybe -inf), a `LazyFloor`
(clip(floor(x)) waiting to become an if-chain) or an `Opaque` PRNG payload.

Nothing of lcm is re-implemented here: only the leaf primitives get symbolic meanings.
See DESIGN.md section 2 (E1).
"""
from __future__ import annotations

import math
import sys
from fractions import Fraction

import numpy as np
import z3

import jax
import jax.numpy as jnp
from jax._src import core

NINF = float("-inf")
PINF = float("inf")


class Unsupported(Exception):
    """The symbolic value model cannot represent this operation; obligation inconclusive."""


# ----------------------------------------------------------------------------------
# scalar value model
# ----------------------------------------------------------------------------------
class XR:
    """extended real: value is -inf if `ninf` (a z3 Bool / python bool) else `val`."""

    __slots__ = ("ninf", "val")

    def __init__(self, ninf, val):
        self.ninf = ninf
        self.val = val

    def __repr__(self):
        return f"XR({self.ninf},{self.val})"


class Opaque:
    """opaque PRNG payloads: key data halves / raw random bits / mantissa bits"""

    __slots__ = ("kind", "key", "idx")

    def __init__(self, kind, key, idx):
        self.kind, self.key, self.idx = kind, key, idx

    def __repr__(self):
        return f"{self.kind}({self.key},{self.idx})"


class LazyFloor:
    """floor(x) clipped to [lo, hi] (bounds may be None until a clip arrives)"""

    __slots__ = ("x", "lo", "hi")

    def __init__(self, x, lo=None, hi=None):
        self.x, self.lo, self.hi = x, lo, hi

    def mat(self, as_int=False):
        if (self.lo is None or self.hi is None) and FLOOR_RANGE[0] is not None:
            # harness-declared range for unclipped floors; the range itself becomes a side
            # condition that the harness must prove from its assumptions
            flo, fhi = FLOOR_RANGE[0]
            SIDE.append(z3.And(self.x >= flo, self.x < fhi + 1))
            lo = flo if self.lo is None else max(flo, int(self.lo))
            hi = fhi if self.hi is None else min(fhi, int(self.hi))
            return LazyFloor(self.x, lo, hi).mat(as_int)
        if self.lo is None or self.hi is None:
            t = z3.ToInt(self.x)
            if self.lo is not None:
                t = z3.If(t < int(self.lo), z3.IntVal(int(self.lo)), t)
            if self.hi is not None:
                t = z3.If(t > int(self.hi), z3.IntVal(int(self.hi)), t)
            return t if as_int else z3.ToReal(t)
        lo, hi = int(self.lo), int(self.hi)
        if lo >= hi:
            return lo if as_int else Fraction(lo)
        mk = (lambda k: k) if as_int else (lambda k: Fraction(k))
        acc = mk(hi)
        for k in range(hi - 1, lo - 1, -1):
            atom = self.x < k + 1
            register_cell_atom(atom)
            acc = ite(atom, mk(k), acc)
        return acc


# --- value tags -------------------------------------------------------------------------------
# In tagging mode every symbolic real produced by a max-reduction is wrapped as vtag(k, e) with a
# unique k.  The tag is the identity (it is stripped before any solver call / evaluation); it only
# makes the entries of a value array syntactically unique, so that the inductive decomposition of
# the pipeline checks can replace "V_next[i]" by a fresh constant without ever touching a
# coincidentally equal sub-term (e.g. a utility expression).
TAGGING = [False]
_TAGN = [0]
VTAG = z3.Function("vtag", z3.IntSort(), z3.RealSort(), z3.RealSort())


def tag(v):
    if not TAGGING[0]:
        return v
    if isinstance(v, XR):
        return XR(v.ninf, tag(v.val))
    if isinstance(v, z3.ExprRef) and z3.is_real(v) and v.num_args() > 0:
        _TAGN[0] += 1
        return VTAG(z3.IntVal(_TAGN[0]), v)
    return v


def strip_tags(term):
    """remove all vtag(k, .) wrappers (identity semantics)"""
    if isinstance(term, XR):
        return XR(strip_tags(term.ninf), strip_tags(term.val))
    if not isinstance(term, z3.ExprRef) or _TAGN[0] == 0:
        return term
    return z3.substitute_funs(term, (VTAG, z3.Var(1, z3.RealSort())))


AMBIENT: list = []  # harness assumptions; used only to drop impossible -inf flags (simplify_x)
FLOOR_RANGE = [None]  # optional (lo, hi) for unclipped floors, see LazyFloor.mat
CELL_ATOMS: list = []  # atoms `x < k+1` created when a clipped floor is materialised
CELL_IDS: set = set()


def register_cell_atom(atom):
    if isinstance(atom, z3.ExprRef):
        CELL_ATOMS.append(atom)
        CELL_IDS.add(atom.get_id())


def is_cell_ite(x):
    return (
        isinstance(x, z3.ExprRef)
        and z3.is_app_of(x, z3.Z3_OP_ITE)
        and not z3.is_bool(x)
        and x.arg(0).get_id() in CELL_IDS
    )
SIDE: list = []  # side conditions (z3 Bool) that must follow from the harness assumptions


def is_sym(x):
    return isinstance(x, (z3.ExprRef, XR, LazyFloor, Opaque))


def conc(x):
    """exact python value for python / numpy scalars"""
    if isinstance(x, (bool, np.bool_)):
        return bool(x)
    if isinstance(x, (int, np.integer)):
        return int(x)
    if isinstance(x, (float, np.floating)):
        x = float(x)
        if math.isinf(x) or math.isnan(x):
            return x
        return Fraction(x)
    return x


def z(x):
    """to z3 term"""
    if isinstance(x, z3.ExprRef):
        return x
    if isinstance(x, (bool, np.bool_)):
        return z3.BoolVal(bool(x))
    if isinstance(x, (int, np.integer)):
        return z3.IntVal(int(x))
    if isinstance(x, Fraction):
        return z3.RealVal(x)
    if isinstance(x, LazyFloor):
        return x.mat()
    if isinstance(x, float) and not (math.isinf(x) or math.isnan(x)):
        return z3.RealVal(Fraction(x))
    raise Unsupported(f"cannot convert {x!r} to a z3 term")


def zr(x):
    x = z(x)
    if z3.is_int(x):
        if z3.is_int_value(x):
            return z3.RealVal(x.as_long())
        return z3.ToReal(x)
    return x


def force(a):
    return a.mat() if isinstance(a, LazyFloor) else a


def same(a, b):
    if a is b:
        return True
    if isinstance(a, z3.ExprRef) and isinstance(b, z3.ExprRef):
        return a.eq(b)
    if not is_sym(a) and not is_sym(b):
        return type(a) == type(b) and a == b
    return False


def b_and(a, b):
    if a is True:
        return b
    if b is True:
        return a
    if a is False or b is False:
        return False
    return z3.And(a, b)


def b_or(a, b):
    if a is False:
        return b
    if b is False:
        return a
    if a is True or b is True:
        return True
    return z3.Or(a, b)


def b_not(a):
    if isinstance(a, (bool, np.bool_)):
        return not a
    return z3.Not(a)


def b_all(xs):
    acc = True
    for x in xs:
        acc = b_and(acc, x)
    return acc


def b_any(xs):
    acc = False
    for x in xs:
        acc = b_or(acc, x)
    return acc


def is_ninf_c(a):
    return isinstance(a, float) and a == NINF


def split_x(a):
    if isinstance(a, XR):
        return a.ninf, a.val
    if is_ninf_c(a):
        return True, Fraction(0)
    return False, a


def mk_x(n, v):
    if n is False:
        return v
    if n is True:
        return NINF
    return XR(n, v)


def simplify_x(v):
    """drop the -inf flag of an extended real when it is impossible under the ambient
    (harness) assumptions; all obligations are proved under the same assumptions"""
    if isinstance(v, XR) and AMBIENT:
        s = z3.Solver()
        s.set("timeout", 10000)
        s.add(AMBIENT)
        s.add(z(v.ninf))
        if str(s.check()) == "unsat":
            return v.val
    return v


def ite(c, a, b):
    a, b = force(a), force(b)
    if c is True:
        return a
    if c is False:
        return b
    if same(a, b):
        return a
    if isinstance(a, bool) and isinstance(b, bool):
        return c if a else z3.Not(c)
    if isinstance(a, Opaque) or isinstance(b, Opaque):
        raise Unsupported("select between PRNG payloads")
    a_x = isinstance(a, XR) or is_ninf_c(a)
    b_x = isinstance(b, XR) or is_ninf_c(b)
    if a_x or b_x:
        an, av = split_x(a)
        bn, bv = split_x(b)
        return mk_x(ite(c, an, bn), ite(c, av, bv))
    if isinstance(a, float) or isinstance(b, float):
        raise Unsupported(f"special float in select: {a} {b}")
    za, zb = z(a), z(b)
    if z3.is_bool(za) != z3.is_bool(zb):
        raise Unsupported("bool/number select")
    if not z3.is_bool(za) and z3.is_int(za) != z3.is_int(zb):
        za, zb = zr(za), zr(zb)
    return z3.If(c, za, zb)


def ite_b(c, a, b):
    if c is True:
        return a
    if c is False:
        return b
    return b_or(b_and(c, a), b_and(b_not(c), b))


def is_int_tree(a):
    return isinstance(a, z3.ExprRef) and z3.is_int(a) and z3.is_app_of(a, z3.Z3_OP_ITE)


def is_intlike(a):
    return (isinstance(a, int) and not isinstance(a, bool)) or (
        isinstance(a, z3.ExprRef) and z3.is_int_value(a)
    )


def map_tree(f, a):
    """apply f to the constant leaves of an int ite-tree"""
    if isinstance(a, z3.ExprRef) and z3.is_int_value(a):
        return f(a.as_long())
    if is_int_tree(a):
        c, x, y = a.children()
        return ite(c, map_tree(f, x), map_tree(f, y))
    return f(a)


def tree_leaves(a, acc=None):
    """set of constant leaves of an int tree, or None if some leaf is not a constant"""
    acc = set() if acc is None else acc
    if isinstance(a, int) and not isinstance(a, bool):
        acc.add(a)
        return acc
    if isinstance(a, z3.ExprRef) and z3.is_int_value(a):
        acc.add(a.as_long())
        return acc
    if is_int_tree(a):
        _, x, y = a.children()
        if tree_leaves(x, acc) is None or tree_leaves(y, acc) is None:
            return None
        return acc
    return None


def _py(v):
    if isinstance(v, z3.ExprRef) and z3.is_int_value(v):
        return v.as_long()
    return v


def _arith(op, a, b):
    a, b = _py(force(a)), _py(force(b))
    if isinstance(a, Opaque) or isinstance(b, Opaque):
        raise Unsupported("arithmetic on PRNG payload")
    ax = isinstance(a, XR) or isinstance(a, float)
    bx = isinstance(b, XR) or isinstance(b, float)
    if ax or bx:
        if (isinstance(a, float) and a != NINF) or (isinstance(b, float) and b != NINF):
            raise Unsupported(f"special float in {op}: {a} {b}")
        an, av = split_x(a)
        bn, bv = split_x(b)
        if op == "add":
            return mk_x(b_or(an, bn), _arith(op, av, bv))
        if op == "sub":
            if bn is not False:
                raise Unsupported("x - (-inf)")
            return mk_x(an, _arith(op, av, bv))
        if op == "mul":
            # -inf * y: defined here only for y > 0 (else NaN or +inf); record side condition
            if an is not False:
                _side_pos(bv, bn)
            if bn is not False:
                _side_pos(av, an)
            return mk_x(b_or(an, bn), _arith(op, av, bv))
        if op == "div":
            if bn is not False:
                raise Unsupported("x / (-inf)")
            _side_pos(bv, False)
            return mk_x(an, _arith(op, av, bv))
        raise Unsupported(op + " with -inf")
    if not is_sym(a) and not is_sym(b):
        if isinstance(a, bool):
            a = int(a)
        if isinstance(b, bool):
            b = int(b)
        if op == "add":
            return a + b
        if op == "sub":
            return a - b
        if op == "mul":
            return a * b
        if op == "div":
            if isinstance(a, int) and isinstance(b, int):
                if b == 0:
                    raise Unsupported("int division by zero")
                q = abs(a) // abs(b)  # lax.div on ints truncates toward zero
                return q if (a >= 0) == (b >= 0) else -q
            if b == 0:
                raise Unsupported("division by zero")
            return Fraction(a) / Fraction(b)
        if op == "rem":
            if isinstance(a, int) and isinstance(b, int):
                if b == 0:
                    raise Unsupported("int rem by zero")
                return int(math.fmod(a, b))
            raise Unsupported("float rem")
    # integer if-trees: push the operation to the leaves
    if is_int_tree(a) and (is_int_tree(b) or (isinstance(b, int) and not isinstance(b, bool))):
        return map_tree(lambda v: _arith(op, v, b), a)
    if is_int_tree(b) and isinstance(a, int) and not isinstance(a, bool):
        return map_tree(lambda v: _arith(op, a, v), b)
    if op == "rem":
        raise Unsupported("symbolic rem")
    # piecewise normal form: arithmetic is pushed into if-then-else terms over interpolation-cell
    # atoms, so values stay "ite(cell condition, polynomial, polynomial)"
    if op in ("add", "sub", "mul", "div"):
        if is_cell_ite(a):
            c_, x_, y_ = a.children()
            if is_cell_ite(b) and b.arg(0).get_id() == c_.get_id():
                return ite(c_, _arith(op, x_, b.arg(1)), _arith(op, y_, b.arg(2)))
            return ite(c_, _arith(op, x_, b), _arith(op, y_, b))
        if is_cell_ite(b) and op != "div":
            c_, x_, y_ = b.children()
            return ite(c_, _arith(op, a, x_), _arith(op, a, y_))
    if not is_sym(b):
        if op in ("add", "sub") and b == 0 and not isinstance(b, bool):
            return a
        if op in ("mul", "div") and b == 1 and not isinstance(b, bool):
            return a
    if not is_sym(a):
        if op == "add" and a == 0:
            return b
        if op == "mul" and a == 1:
            return b
    za, zb = z(a), z(b)
    if z3.is_bool(za) or z3.is_bool(zb):
        raise Unsupported("arithmetic on booleans")
    both_int = z3.is_int(za) and z3.is_int(zb)
    if not both_int:
        za, zb = zr(za), zr(zb)
    if op == "add":
        return za + zb
    if op == "sub":
        return za - zb
    if op == "mul":
        if (not is_sym(a) and a == 0) or (not is_sym(b) and b == 0):
            return 0 if both_int else Fraction(0)
        return za * zb
    if op == "div":
        if both_int:
            raise Unsupported("symbolic int div")
        if not is_sym(b):
            return za * z3.RealVal(1 / Fraction(b))
        SIDE.append(zb != 0)
        return za / zb
    raise Unsupported(op)


def _side_pos(v, guard_not):
    """other factor of a (-inf)*y product must be > 0"""
    if guard_not is not False and guard_not is not True:
        pass
    if not is_sym(v):
        if not (v > 0):
            raise Unsupported("(-inf) * non-positive constant")
        return
    SIDE.append(z(v) > 0)


def _cmp(op, a, b):
    a, b = _py(force(a)), _py(force(b))
    if isinstance(a, Opaque) or isinstance(b, Opaque):
        raise Unsupported("comparison of PRNG payload")
    an, av = split_x(a)
    bn, bv = split_x(b)
    if an is not False or bn is not False:
        if (isinstance(a, float) and a != NINF) or (isinstance(b, float) and b != NINF):
            raise Unsupported("special float compare")
        base = _cmp(op, av, bv)
        if op == "lt":
            return ite_b(an, b_not(bn), ite_b(bn, False, base))
        if op == "le":
            return ite_b(an, True, ite_b(bn, False, base))
        if op == "gt":
            return ite_b(bn, b_not(an), ite_b(an, False, base))
        if op == "ge":
            return ite_b(bn, True, ite_b(an, False, base))
        if op == "eq":
            return ite_b(an, bn, ite_b(bn, False, base))
        if op == "ne":
            return b_not(_cmp("eq", a, b))
    if isinstance(a, float) or isinstance(b, float):
        raise Unsupported(f"special float compare {a} {b}")
    if not is_sym(a) and not is_sym(b):
        return bool(
            {
                "lt": a < b,
                "le": a <= b,
                "gt": a > b,
                "ge": a >= b,
                "eq": a == b,
                "ne": a != b,
            }[op]
        )
    if isinstance(a, z3.ExprRef) and isinstance(b, z3.ExprRef) and a.eq(b):
        return op in ("le", "ge", "eq")
    if is_int_tree(a) and (is_int_tree(b) or (isinstance(b, int) and not isinstance(b, bool))):
        return map_tree(lambda v: _cmp(op, v, b), a)
    if is_int_tree(b) and isinstance(a, int) and not isinstance(a, bool):
        return map_tree(lambda v: _cmp(op, a, v), b)
    za, zb = z(a), z(b)
    if z3.is_bool(za) or z3.is_bool(zb):
        if not (z3.is_bool(za) and z3.is_bool(zb)):
            raise Unsupported("bool/number compare")
        if op == "eq":
            return za == zb
        if op == "ne":
            return za != zb
        raise Unsupported("ordering on bools")
    if z3.is_int(za) != z3.is_int(zb):
        za, zb = zr(za), zr(zb)
    return {
        "lt": za < zb,
        "le": za <= zb,
        "gt": za > zb,
        "ge": za >= zb,
        "eq": za == zb,
        "ne": za != zb,
    }[op]


def s_max(a, b):
    a, b = _py(a), _py(b)
    if isinstance(a, LazyFloor) and not is_sym(b) and not isinstance(b, float) and b == int(b):
        return LazyFloor(a.x, int(b) if a.lo is None else max(a.lo, int(b)), a.hi)
    if isinstance(b, LazyFloor) and not is_sym(a) and not isinstance(a, float) and a == int(a):
        return s_max(b, a)
    a, b = force(a), force(b)
    if is_int_tree(a) and isinstance(b, int):
        return map_tree(lambda v: s_max(v, b), a)
    if is_int_tree(b) and isinstance(a, int):
        return map_tree(lambda v: s_max(a, v), b)
    an, av = split_x(a)
    bn, bv = split_x(b)
    if an is not False or bn is not False:
        v = ite(an, bv, ite(bn, av, s_max(av, bv)))
        return mk_x(b_and(an, bn), v)
    if not is_sym(a) and not is_sym(b):
        return max(a, b)
    if same(a, b):
        return a
    return ite(_cmp("ge", a, b), a, b)


def s_min(a, b):
    a, b = _py(a), _py(b)
    if isinstance(a, LazyFloor) and not is_sym(b) and not isinstance(b, float) and b == int(b):
        return LazyFloor(a.x, a.lo, int(b) if a.hi is None else min(a.hi, int(b)))
    if isinstance(b, LazyFloor) and not is_sym(a) and not isinstance(a, float) and a == int(a):
        return s_min(b, a)
    a, b = force(a), force(b)
    if is_int_tree(a) and isinstance(b, int):
        return map_tree(lambda v: s_min(v, b), a)
    if is_int_tree(b) and isinstance(a, int):
        return map_tree(lambda v: s_min(a, v), b)
    an, av = split_x(a)
    bn, bv = split_x(b)
    if an is not False or bn is not False:
        v = ite(b_or(an, bn), Fraction(0), s_min(av, bv))
        return mk_x(b_or(an, bn), v)
    if not is_sym(a) and not is_sym(b):
        return min(a, b)
    if same(a, b):
        return a
    return ite(_cmp("le", a, b), a, b)


def s_floor(a):
    if isinstance(a, (XR, float)):
        raise Unsupported("floor of non-finite")
    if not is_sym(a):
        return Fraction(math.floor(a))
    if isinstance(a, LazyFloor):
        return a
    if isinstance(a, z3.ExprRef) and z3.is_int(a):
        return a
    return LazyFloor(a)


def s_round(a):
    # round half away from zero / to even coincide except on exact halves; only concrete
    if not is_sym(a):
        return Fraction(round(a))
    raise Unsupported("round of symbolic value")


def s_convert(a, new_dtype):
    kind = np.dtype(new_dtype).kind
    if isinstance(a, Opaque):
        raise Unsupported("convert PRNG payload")
    if isinstance(a, LazyFloor):
        if kind in "iu":
            return a.mat(as_int=True)
        a = a.mat()
    if isinstance(a, XR):
        if kind != "f":
            raise Unsupported("convert -inf to non-float")
        return a
    if not is_sym(a):
        if kind == "f":
            if isinstance(a, float):
                return a
            return Fraction(int(a)) if isinstance(a, (bool, int)) else a
        if kind in "iu":
            if isinstance(a, float):
                raise Unsupported("convert non-finite to int")
            if isinstance(a, Fraction):
                return int(a) if a >= 0 else -int(-a)  # trunc toward zero
            return int(a)
        if kind == "b":
            return bool(a != 0)
    else:
        if kind == "f":
            if z3.is_bool(a):
                return z3.If(a, z3.RealVal(1), z3.RealVal(0))
            if is_int_tree(a):
                return map_tree(lambda v: Fraction(v) if isinstance(v, int) else zr(v), a)
            return zr(a)
        if kind in "iu":
            if z3.is_bool(a):
                return z3.If(a, z3.IntVal(1), z3.IntVal(0))
            if z3.is_int(a):
                return a
            return z3.If(a >= 0, z3.ToInt(a), -z3.ToInt(-a))
        if kind == "b":
            if z3.is_bool(a):
                return a
            return _cmp("ne", a, 0)
    raise Unsupported(f"convert {a!r} to {new_dtype}")


def vec(f, nin=2):
    return np.frompyfunc(f, nin, 1)


V = {
    "add": vec(lambda a, b: _arith("add", a, b)),
    "sub": vec(lambda a, b: _arith("sub", a, b)),
    "mul": vec(lambda a, b: _arith("mul", a, b)),
    "div": vec(lambda a, b: _arith("div", a, b)),
    "rem": vec(lambda a, b: _arith("rem", a, b)),
    "max": vec(s_max),
    "min": vec(s_min),
    "lt": vec(lambda a, b: _cmp("lt", a, b)),
    "le": vec(lambda a, b: _cmp("le", a, b)),
    "gt": vec(lambda a, b: _cmp("gt", a, b)),
    "ge": vec(lambda a, b: _cmp("ge", a, b)),
    "eq": vec(lambda a, b: _cmp("eq", a, b)),
    "ne": vec(lambda a, b: _cmp("ne", a, b)),
    "and": vec(b_and),
    "or": vec(b_or),
    "not": vec(b_not, 1),
    "floor": vec(s_floor, 1),
    "round": vec(s_round, 1),
    "neg": vec(lambda a: _arith("sub", 0, a), 1),
}

UF: dict = {
    "exp": z3.Function("exp", z3.RealSort(), z3.RealSort()),
    "log": z3.Function("log", z3.RealSort(), z3.RealSort()),
}
UF_APPS: dict = {"exp": {}, "log": {}}


def uf(name, a):
    if isinstance(a, (XR, float, Opaque)):
        raise Unsupported(f"{name} of non-finite")
    f = UF.get(name)
    if f is None:
        f = UF[name] = z3.Function(name, z3.RealSort(), z3.RealSort())
    t = f(zr(force(a)))
    UF_APPS.setdefault(name, {})[t.get_id()] = t
    return t


# ----------------------------------------------------------------------------------
# conversion between jax/np arrays and object arrays
# ----------------------------------------------------------------------------------
def to_obj(x):
    if isinstance(x, SymTracer):
        return x.val
    a = np.asarray(x)
    out = np.empty(a.shape, dtype=object)
    if a.ndim == 0:
        out[()] = conc(a[()])
        return out
    flat = out.reshape(-1)
    af = a.reshape(-1)
    for i in range(af.size):
        flat[i] = conc(af[i])
    return out


def all_concrete(o):
    return not any(is_sym(v) for v in o.reshape(-1))


def _exact_float(v):
    if isinstance(v, float):
        return True
    if isinstance(v, Fraction):
        try:
            return Fraction(float(v)) == v
        except OverflowError:
            return False
    return True


def from_obj_concrete(o, aval):
    dt = aval.dtype
    flat = [(float(v) if isinstance(v, (Fraction, float)) else v) for v in o.reshape(-1)]
    with core.set_current_trace(core.eval_trace):
        return jnp.asarray(np.array(flat, dtype=dt).reshape(aval.shape))


# ----------------------------------------------------------------------------------
# tracer / trace
# ----------------------------------------------------------------------------------
class SymTracer(core.Tracer):
    __slots__ = ["val", "_aval", "_conc"]

    def __init__(self, trace, val, aval):
        self._trace = trace
        self.val = val
        self._aval = aval
        self._conc = None

    @property
    def aval(self):
        return self._aval

    def __array__(self, dtype=None, copy=None):
        if getattr(self, "_conc", None) is not None:
            return self._conc
        return self.val

    def to_concrete_value(self):
        fk = self._trace.forker
        if self._conc is not None:
            return self._conc
        if fk is None:
            return None
        f = sys._getframe(1)
        ok = False
        for _ in range(5):
            if f is None:
                break
            if f.f_code.co_name in ("expand_bool_indices", "concrete_or_error"):
                ok = True
                break
            f = f.f_back
        if not ok:
            return None
        self._conc = fk.concretize(self.val, self._aval)
        return self._conc


class SymTrace(core.Trace):
    def __init__(self):
        super().__init__()
        self.stats = {}
        self.forker = None

    def lift(self, obj, dtype):
        obj = np.asarray(obj, dtype=object) if not isinstance(obj, np.ndarray) else obj
        aval = core.ShapedArray(obj.shape, np.dtype(dtype))
        return SymTracer(self, obj, aval)

    def process_primitive(self, prim, tracers, params, /):
        name = prim.name
        self.stats[name] = self.stats.get(name, 0) + 1
        if not any(isinstance(t, SymTracer) for t in tracers):
            with core.set_current_trace(core.eval_trace):
                return prim.bind(*tracers, **params)
        rule = RULES.get(name)
        if rule is None:
            raise Unsupported(f"no symbolic rule for primitive {name}: {params}")
        avals_in = [core.typeof(t) for t in tracers]
        outs = rule(self, tracers, avals_in, params, prim)
        single = not prim.multiple_results
        if single:
            outs = [outs]
        res = []
        for o in outs:
            if isinstance(o, tuple):
                obj, aval = o
                if aval is None:
                    aval = _abstract(prim, avals_in, params, single)
                if not isinstance(obj, np.ndarray):
                    obj = np.asarray(obj, dtype=object)
                if tuple(obj.shape) != tuple(aval.shape):
                    raise AssertionError(f"{name}: shape {obj.shape} vs aval {aval.shape}")
                if all_concrete(obj) and (
                    np.dtype(aval.dtype).kind != "f" or all(_exact_float(v) for v in obj.reshape(-1))
                ) and not jax.dtypes.issubdtype(aval.dtype, jax.dtypes.prng_key):
                    res.append(from_obj_concrete(obj, aval))
                else:
                    res.append(SymTracer(self, obj, aval))
            else:
                res.append(o)
        return res[0] if single else res

    def stage_value(self, val):
        if isinstance(val, SymTracer):
            return val
        with core.set_current_trace(core.eval_trace):
            return core.eval_trace.stage_value(val)

    def process_custom_jvp_call(self, primitive, fun, jvp, tracers, /, **_):
        with core.set_current_trace(self):
            return fun.call_wrapped(*tracers)

    def process_custom_vjp_call(self, primitive, fun, fwd, bwd, tracers, /, **_):
        with core.set_current_trace(self):
            return fun.call_wrapped(*tracers)


def _abstract(prim, avals_in, params, single):
    out = prim.abstract_eval(*avals_in, **params)[0]
    return out if single else out


RULES: dict = {}


def rule(*names):
    def deco(f):
        for n in names:
            RULES[n] = f
        return f

    return deco


def _bin(name):
    def r(trace, args, avals, params, prim):
        a, b = to_obj(args[0]), to_obj(args[1])
        if name in ("and", "or"):
            if avals[0].dtype != np.bool_:
                if a.size and isinstance(a.reshape(-1)[0], Opaque):
                    return _opaque_passthru(a, avals[0])
                raise Unsupported("bitwise op on ints")
        res = np.asarray(V[name](a, b), dtype=object)
        shape = np.broadcast_shapes(a.shape, b.shape)
        return (res.reshape(shape), None)

    return r


for _n in ("rem", "add", "sub", "mul", "div", "max", "min", "lt", "le", "gt", "ge", "eq", "ne", "and", "or"):
    RULES[_n] = _bin(_n)
RULES["le_to"] = RULES["le"]
RULES["lt_to"] = RULES["lt"]


def _un(name):
    def r(trace, args, avals, params, prim):
        a = to_obj(args[0])
        return (np.asarray(V[name](a), dtype=object).reshape(a.shape), None)

    return r


for _n in ("not", "neg", "floor", "round"):
    RULES[_n] = _un(_n)


@rule("ceil")
def _ceil(trace, args, avals, params, prim):
    """ceil(x) = -floor(-x)"""
    a = to_obj(args[0])

    def f(v):
        v = force(v)
        if isinstance(v, (XR, float, Opaque)):
            raise Unsupported("ceil of non-finite")
        if not is_sym(v):
            return Fraction(math.ceil(v))
        if isinstance(v, z3.ExprRef) and z3.is_int(v):
            return v
        return -z3.ToReal(z3.ToInt(-zr(v)))

    return (np.asarray(vec(f, 1)(a), dtype=object).reshape(a.shape), avals[0])


def _mk_uf(name):
    def r(trace, args, avals, params, prim):
        a = to_obj(args[0])
        res = np.asarray(vec(lambda x: uf(name, x), 1)(a), dtype=object).reshape(a.shape)
        return (res, avals[0])

    return r


RULES["log"] = _mk_uf("log")
RULES["exp"] = _mk_uf("exp")


@rule("log1p")
def _log1p(trace, args, avals, params, prim):
    """log1p(x) = log(1 + x) (real-number model)"""
    a = to_obj(args[0])
    res = np.asarray(vec(lambda x: uf("log", _arith("add", 1, x)), 1)(a), dtype=object).reshape(a.shape)
    return (res, avals[0])


@rule("expm1")
def _expm1(trace, args, avals, params, prim):
    """expm1(x) = exp(x) - 1 (real-number model)"""
    a = to_obj(args[0])
    res = np.asarray(vec(lambda x: _arith("sub", uf("exp", x), 1), 1)(a), dtype=object).reshape(a.shape)
    return (res, avals[0])


@rule("pow")
def _pow(trace, args, avals, params, prim):
    """pow(b, x): b == float(e) (jnp.logspace(..., base=jnp.e)) -> exp(x) (the float literal e is
    identified with Euler's number: part of the real-number model of floats); b == exp(t) -> exp(t*x);
    small concrete non-negative integer exponents -> repeated multiplication."""
    b, x = to_obj(args[0]), to_obj(args[1])
    shape = np.broadcast_shapes(b.shape, x.shape)
    bb, xb = np.broadcast_to(b, shape), np.broadcast_to(x, shape)
    out = np.empty(shape, dtype=object)
    for i in np.ndindex(*shape):
        base, x = force(bb[i]), force(xb[i])
        if isinstance(base, (XR, float, Opaque)) or isinstance(x, (XR, float, Opaque)):
            raise Unsupported("pow of non-finite")
        if not is_sym(base) and float(base) == math.e:
            out[i] = uf("exp", x)
        elif isinstance(base, z3.ExprRef) and z3.is_app(base) and "exp" in UF and base.decl().eq(UF["exp"]):
            out[i] = uf("exp", _arith("mul", base.arg(0), x))  # exp(t)**x = exp(t*x) for every real x
        elif not is_sym(x) and Fraction(x).denominator == 1 and 0 <= int(x) <= 8:
            acc = Fraction(1)
            for _ in range(int(x)):
                acc = _arith("mul", acc, base)
            out[i] = acc
        else:
            raise Unsupported("pow with a base other than e / exp(t) and a non-integer or symbolic exponent")
    return (out, None)


@rule("abs")
def _abs(trace, args, avals, params, prim):
    a = to_obj(args[0])

    def f(v):
        v = force(v)
        if isinstance(v, (XR, float)):
            raise Unsupported("abs of non-finite")
        if not is_sym(v):
            return abs(v)
        return ite(_cmp("ge", v, 0), v, _arith("sub", 0, v))

    return (np.asarray(vec(f, 1)(a), dtype=object).reshape(a.shape), avals[0])


@rule("is_finite")
def _is_finite(trace, args, avals, params, prim):
    a = to_obj(args[0])

    def f(v):
        v = force(v)
        if isinstance(v, XR):
            return b_not(v.ninf)
        if isinstance(v, float):
            return not (math.isinf(v) or math.isnan(v))
        return True

    return (np.asarray(vec(f, 1)(a), dtype=object).reshape(a.shape), None)


@rule("convert_element_type")
def _convert(trace, args, avals, params, prim):
    a = to_obj(args[0])
    nd = params["new_dtype"]
    res = np.asarray(vec(lambda x: s_convert(x, nd), 1)(a), dtype=object).reshape(a.shape)
    return (res, core.ShapedArray(a.shape, np.dtype(nd)))


def sym_index(getter, n, idx):
    """select getter(k) for a symbolic index idx in [0,n) via ite chain"""
    idx = _py(force(idx))
    if not is_sym(idx):
        return getter(int(idx))
    if isinstance(idx, z3.ExprRef) and z3.is_app_of(idx, z3.Z3_OP_ITE):
        c, x, y = idx.children()
        return ite(c, sym_index(getter, n, x), sym_index(getter, n, y))
    if isinstance(idx, z3.ExprRef) and not z3.is_int(idx):
        raise Unsupported("non-integer index")
    acc = getter(n - 1)
    for k in range(n - 2, -1, -1):
        acc = ite(_cmp("eq", idx, k), getter(k), acc)
    return acc


@rule("select_n")
def _select_n(trace, args, avals, params, prim):
    which = to_obj(args[0])
    cases = [to_obj(c) for c in args[1:]]
    shape = avals[1].shape
    which = np.broadcast_to(which, shape)
    out = np.empty(shape, dtype=object)
    isbool = avals[0].dtype == np.bool_
    for idx in np.ndindex(*shape):
        w = which[idx]
        if isbool:
            out[idx] = ite(w, cases[1][idx], cases[0][idx])
        else:
            out[idx] = sym_index(lambda k: cases[k][idx], len(cases), w)
    return (out, avals[1])


PRIMS: dict = {}


def _structural(prim_name):
    """data movement primitives: apply the real primitive to an id array"""

    def r(trace, args, avals, params, prim):
        a = to_obj(args[0])
        ids = np.arange(a.size, dtype=np.int64).reshape(a.shape)
        with core.set_current_trace(core.eval_trace):
            out_ids = prim.bind(jnp.asarray(ids), *args[1:], **params)
        flat = a.reshape(-1)
        if isinstance(out_ids, (list, tuple)):
            res = []
            for oi in out_ids:
                oi = np.asarray(oi)
                o = np.empty(oi.shape, dtype=object)
                o.reshape(-1)[:] = flat[oi.reshape(-1)] if oi.size else []
                res.append((o, core.ShapedArray(oi.shape, avals[0].dtype)))
            return res
        out_ids = np.asarray(out_ids)
        o = np.empty(out_ids.shape, dtype=object)
        if out_ids.size:
            of = o.reshape(-1)
            src = flat[out_ids.reshape(-1)]
            for i in range(of.size):
                of[i] = src[i]
        return (o, core.ShapedArray(out_ids.shape, avals[0].dtype))

    return r


for _n in ("broadcast_in_dim", "reshape", "transpose", "squeeze", "rev", "slice", "expand_dims", "unstack", "split"):
    RULES[_n] = _structural(_n)


@rule("concatenate")
def _concat(trace, args, avals, params, prim):
    arrs = [to_obj(a) for a in args]
    res = np.concatenate(arrs, axis=params["dimension"])
    return (res, None)


@rule("stack")
def _stack(trace, args, avals, params, prim):
    arrs = [to_obj(a) for a in args]
    res = np.stack(arrs, axis=params["axis"])
    return (res, None)


@rule("tile")
def _tile(trace, args, avals, params, prim):
    a = to_obj(args[0])
    reps = params.get("reps")
    res = np.tile(a, reps)
    return (res, None)


@rule("pad")
def _pad(trace, args, avals, params, prim):
    a = to_obj(args[0])
    pv = to_obj(args[1])[()]
    cfg = params["padding_config"]
    if any(i != 0 for (_, _, i) in cfg) or any(lo < 0 or hi < 0 for (lo, hi, _) in cfg):
        raise Unsupported("interior/negative padding")
    shape = tuple(lo + s + hi for s, (lo, hi, _) in zip(a.shape, cfg))
    out = np.empty(shape, dtype=object)
    for i in np.ndindex(*shape):
        out[i] = pv
    sl = tuple(slice(lo, lo + s) for s, (lo, hi, _) in zip(a.shape, cfg))
    out[sl] = a
    return (out, None)


def _reduce(name, f, init):
    def r(trace, args, avals, params, prim):
        a = to_obj(args[0])
        axes = tuple(int(x) for x in params["axes"])
        if not axes:
            return (a, avals[0])
        keep = [i for i in range(a.ndim) if i not in axes]
        at = a.transpose(keep + list(axes))
        kshape = at.shape[: len(keep)]
        at = at.reshape(kshape + (-1,))
        out = np.empty(kshape, dtype=object)
        for idx in np.ndindex(*kshape):
            vals = list(at[idx])
            if not vals:
                out[idx] = init
            else:
                acc = vals[0]
                for v in vals[1:]:
                    acc = f(acc, v)
                out[idx] = simplify_x(force(acc))
                if name == "reduce_max":
                    out[idx] = tag(out[idx])
        return (out, None)

    return r


RULES["reduce_max"] = _reduce("reduce_max", s_max, NINF)
RULES["reduce_min"] = _reduce("reduce_min", s_min, PINF)
RULES["reduce_sum"] = _reduce("reduce_sum", lambda a, b: _arith("add", a, b), Fraction(0))
RULES["reduce_prod"] = _reduce("reduce_prod", lambda a, b: _arith("mul", a, b), Fraction(1))
RULES["reduce_and"] = _reduce("reduce_and", b_and, True)
RULES["reduce_or"] = _reduce("reduce_or", b_or, False)


@rule("argmax")
def _argmax(trace, args, avals, params, prim):
    a = to_obj(args[0])
    (axis,) = params["axes"]
    idt = params["index_dtype"]
    at = np.moveaxis(a, axis, -1)
    out = np.empty(at.shape[:-1], dtype=object)
    isbool = avals[0].dtype == np.bool_
    for idx in np.ndindex(*at.shape[:-1]):
        vals = list(at[idx])
        if isbool:
            # first True, 0 if none
            acc = 0
            for i in range(len(vals) - 1, -1, -1):
                acc = ite(vals[i], i, acc)
            out[idx] = acc
            continue
        best_i, best_v = 0, vals[0]
        for i, v in enumerate(vals[1:], 1):
            c = _cmp("gt", v, best_v)
            best_i = ite(c, i, best_i)
            best_v = ite(c, v, best_v)
        out[idx] = best_i
    return (out, core.ShapedArray(out.shape, np.dtype(idt)))


OOB = [0]


_STRIP_CACHE: dict = {}


def _stripped_id(f):
    i = f.get_id()
    r = _STRIP_CACHE.get(i)
    if r is None:
        t = strip_tags(f)
        r = _STRIP_CACHE[i] = (t.get_id(), t)  # keep the term alive so that the id stays valid
    return r[0]


def _fresh_fill(dtype, key=None):
    """unconstrained value for an out-of-range read.  With `key` (ids of the index terms + position)
    the same read in another run of the same computation gets the same symbol."""
    if key is None:
        OOB[0] += 1
        tag = str(OOB[0])
    else:
        import hashlib

        tag = hashlib.sha1(repr(key).encode()).hexdigest()[:12]
    kind = np.dtype(dtype).kind
    if kind in "iu":
        return z3.Int(f"oob_fill_{tag}")
    if kind == "b":
        return z3.Bool(f"oob_fill_{tag}")
    return z3.Real(f"oob_fill_{tag}")


@rule("gather")
def _gather(trace, args, avals, params, prim):
    operand = to_obj(args[0])
    indices = to_obj(args[1])
    dn = params["dimension_numbers"]
    slice_sizes = tuple(params["slice_sizes"])
    mode_name = str(params["mode"]).split(".")[-1]
    offset_dims = tuple(dn.offset_dims)
    collapsed = tuple(dn.collapsed_slice_dims)
    start_index_map = tuple(dn.start_index_map)
    op_batch = tuple(dn.operand_batching_dims)
    idx_batch = tuple(dn.start_indices_batching_dims)
    batch_shape = indices.shape[:-1]
    off_operand_dims = [d for d in range(operand.ndim) if d not in collapsed and d not in op_batch]
    off_shape = tuple(slice_sizes[d] for d in off_operand_dims)
    out_rank = len(batch_shape) + len(off_shape)
    out_shape = [None] * out_rank
    bi = iter(batch_shape)
    oi = iter(off_shape)
    for d in range(out_rank):
        out_shape[d] = next(oi) if d in offset_dims else next(bi)
    out = np.empty(tuple(out_shape), dtype=object)
    if mode_name not in ("CLIP", "PROMISE_IN_BOUNDS", "FILL_OR_DROP"):
        raise Unsupported("gather mode " + mode_name)
    for oidx in np.ndindex(*out_shape):
        b = tuple(oidx[d] for d in range(out_rank) if d not in offset_dims)
        o = tuple(oidx[d] for d in range(out_rank) if d in offset_dims)
        start = [0] * operand.ndim
        for k, od in enumerate(start_index_map):
            s = indices[b + (k,)]
            hi = operand.shape[od] - slice_sizes[od]
            if mode_name == "CLIP":
                s = s_max(0, s_min(hi, s))
            start[od] = s
        for obd, ibd in zip(op_batch, idx_batch):
            start[obd] = b[ibd]
        full = list(start)
        for k, od in enumerate(off_operand_dims):
            full[od] = _arith("add", full[od], o[k])

        symbolic_path = [False]  # reset per output element

        def pick(dim, prefix):
            if dim == operand.ndim:
                if any(p < 0 or p >= operand.shape[d] for d, p in enumerate(prefix)):
                    # FILL mode: fill value; other modes: such a leaf of a symbolic index tree sits under
                    # an (expected to be unsatisfiable) branch condition; an unconstrained fresh value is
                    # a sound over-approximation (if the branch were feasible, obligations fail and the
                    # replay decides)
                    if mode_name == "FILL_OR_DROP" or symbolic_path[0]:
                        key = tuple((("id", _stripped_id(f)) if isinstance(f, z3.ExprRef) else repr(f)) for f in (_py(force(x)) for x in full)) + (tuple(prefix), tuple(operand.shape))
                        return _fresh_fill(avals[0].dtype, key)
                    raise Unsupported(f"gather out of bounds {prefix}")
                return operand[tuple(prefix)]
            i = _py(force(full[dim]))
            if not is_sym(i):
                return pick(dim + 1, prefix + [int(i)])
            lv = tree_leaves(i)
            if lv is not None:
                symbolic_path[0] = True
                return map_tree(lambda k: pick(dim + 1, prefix + [k]), i)
            if mode_name == "FILL_OR_DROP":
                # symbolic index may be out of range: range -1..n
                n = operand.shape[dim]
                acc = pick(dim + 1, prefix + [n])
                for k in range(n - 1, -2, -1):
                    acc = ite(_cmp("le", i, k), pick(dim + 1, prefix + [k]), acc) if k == -1 else ite(
                        _cmp("eq", i, k), pick(dim + 1, prefix + [k]), acc
                    )
                return acc
            symbolic_path[0] = True
            return sym_index(lambda k: pick(dim + 1, prefix + [k]), operand.shape[dim], i)

        out[oidx] = pick(0, [])
    return (out, core.ShapedArray(tuple(out_shape), avals[0].dtype))


def _scatter(combine, tagged=False):
    def r(trace, args, avals, params, prim):
        operand = to_obj(args[0]).copy()
        indices = to_obj(args[1])
        updates = to_obj(args[2])
        if not all_concrete(indices):
            raise Unsupported("symbolic scatter indices")
        dn = params["dimension_numbers"]
        # support the segment_* pattern: scatter rows along dim 0
        if tuple(dn.scatter_dims_to_operand_dims) != (0,) or tuple(dn.inserted_window_dims) != (0,):
            raise Unsupported(f"scatter pattern {dn}")
        if getattr(dn, "operand_batching_dims", ()) not in ((), []):
            raise Unsupported("batched scatter")
        n = indices.shape[0]
        for i in range(n):
            seg = int(indices[i, 0])
            if seg < 0 or seg >= operand.shape[0]:
                continue
            upd = updates[i]
            if operand.ndim == 1:
                operand[seg] = combine(operand[seg], upd)
            else:
                operand[seg] = np.asarray(vec(combine)(operand[seg], upd), dtype=object)
        if tagged and np.dtype(avals[0].dtype).kind == "f":
            flat = operand.reshape(-1)
            for i in range(flat.size):
                flat[i] = tag(simplify_x(force(flat[i])))
        return (operand, avals[0])

    return r


RULES["scatter-max"] = RULES["scatter_max"] = _scatter(s_max, tagged=True)
RULES["scatter-min"] = RULES["scatter_min"] = _scatter(s_min)
RULES["scatter-add"] = RULES["scatter_add"] = _scatter(lambda a, b: _arith("add", a, b))
RULES["scatter"] = _scatter(lambda a, b: b)


@rule("jit", "pjit", "closed_call", "core_call")
def _pjit(trace, args, avals, params, prim):
    cj = params.get("jaxpr") or params.get("call_jaxpr")
    with core.set_current_trace(trace):
        outs = core.eval_jaxpr(cj.jaxpr, cj.consts, *args)
    return list(outs)


@rule("stop_gradient", "copy", "copy_p", "optimization_barrier")
def _ident(trace, args, avals, params, prim):
    if prim.multiple_results:
        return list(args)
    return args[0]


@rule("sign")
def _sign(trace, args, avals, params, prim):
    a = to_obj(args[0])

    def sg(v):
        v = _py(force(v))
        if is_int_tree(v):
            return map_tree(sg, v)
        if not is_sym(v):
            r = (v > 0) - (v < 0)
            return r if isinstance(v, int) else Fraction(r)
        if isinstance(v, z3.ExprRef) and not z3.is_bool(v):
            one = 1 if z3.is_int(v) else Fraction(1)
            return ite(v > 0, one, ite(v < 0, -one, one - one))
        raise Unsupported("sign of symbolic")

    return (np.asarray(vec(sg, 1)(a), dtype=object).reshape(a.shape), avals[0])


@rule("clamp")
def _clamp(trace, args, avals, params, prim):
    lo, x, hi = (to_obj(a) for a in args)
    res = V["min"](V["max"](x, lo), hi)
    return (np.asarray(res, dtype=object).reshape(avals[1].shape), avals[1])


@rule("integer_pow")
def _ipow(trace, args, avals, params, prim):
    a = to_obj(args[0])
    y = params["y"]
    if y < 0:
        raise Unsupported("negative integer_pow")
    out = np.empty(a.shape, dtype=object)
    for i in np.ndindex(*a.shape):
        acc = Fraction(1)
        for _ in range(y):
            acc = _arith("mul", acc, a[i])
        out[i] = acc
    return (out, avals[0])


@rule("square")
def _square(trace, args, avals, params, prim):
    a = to_obj(args[0])
    return (np.asarray(V["mul"](a, a), dtype=object).reshape(a.shape), avals[0])


@rule("dynamic_slice")
def _dynamic_slice(trace, args, avals, params, prim):
    operand = to_obj(args[0])
    starts = [to_obj(a)[()] for a in args[1:]]
    sizes = tuple(params["slice_sizes"])
    out = np.empty(sizes, dtype=object)
    cl = [s_max(0, s_min(operand.shape[d] - sizes[d], starts[d])) for d in range(operand.ndim)]
    for oidx in np.ndindex(*sizes):
        full = [_arith("add", cl[d], oidx[d]) for d in range(operand.ndim)]

        def pick(dim, prefix):
            if dim == operand.ndim:
                return operand[tuple(prefix)]
            i = _py(force(full[dim]))
            if not is_sym(i):
                return pick(dim + 1, prefix + [int(i)])
            return sym_index(lambda k: pick(dim + 1, prefix + [k]), operand.shape[dim], i)

        out[oidx] = pick(0, [])
    return (out, core.ShapedArray(sizes, avals[0].dtype))


@rule("sort")
def _sort(trace, args, avals, params, prim):
    """stable sort along one dimension by the first operand (bubble network of compare-exchanges)"""
    if params.get("num_keys", 1) != 1:
        raise Unsupported("sort with several keys")
    dim = params["dimension"]
    ops = [np.moveaxis(to_obj(a).copy(), dim, -1) for a in args]
    n = ops[0].shape[-1]
    for idx in np.ndindex(*ops[0].shape[:-1]):
        rows = [list(o[idx]) for o in ops]
        for i in range(n):
            for j in range(n - 1 - i):
                swap = _cmp("gt", rows[0][j], rows[0][j + 1])
                if swap is False:
                    continue
                for r in rows:
                    a, b = r[j], r[j + 1]
                    r[j], r[j + 1] = ite(swap, b, a), ite(swap, a, b)
        for o, r in zip(ops, rows):
            for k in range(n):
                o[idx + (k,)] = r[k]
    outs = [(np.moveaxis(o, -1, dim), av) for o, av in zip(ops, avals)]
    return outs if prim.multiple_results else outs[0]


def _cum(opname):
    def r(trace, args, avals, params, prim):
        a = to_obj(args[0])
        ax = params["axis"]
        out = a.copy()
        at = np.moveaxis(out, ax, 0)
        if params["reverse"]:
            at = at[::-1]
        for i in range(1, at.shape[0]):
            at[i] = np.asarray(V[opname](at[i - 1], at[i]), dtype=object)
        return (out, avals[0])

    return r


RULES["cumsum"] = _cum("add")
RULES["cummax"] = _cum("max")
RULES["cummin"] = _cum("min")
RULES["cumprod"] = _cum("mul")


@rule("scan")
def _scan(trace, args, avals, params, prim):
    cj = params["jaxpr"]
    length = params["length"]
    if "num_consts" in params:
        nc, ncar = params["num_consts"], params["num_carry"]
    else:
        _c, _ca, _xs = params["ft_in"].unpack()
        nc, ncar = len(_c), len(_ca)
        assert nc + ncar + len(_xs) == len(args)
    if params["reverse"]:
        raise Unsupported("reverse scan")
    consts, carry, xs = list(args[:nc]), list(args[nc : nc + ncar]), list(args[nc + ncar :])
    ys = []
    with core.set_current_trace(trace):
        for i in range(length):
            xi = [x[i] for x in xs]
            outs = core.eval_jaxpr(cj.jaxpr, cj.consts, *consts, *carry, *xi)
            carry, y = list(outs[:ncar]), list(outs[ncar:])
            ys.append(y)
        stacked = [jnp.stack([y[k] for y in ys]) for k in range(len(ys[0]))] if ys and ys[0] else []
    return carry + stacked


@rule("while")
def _while(trace, args, avals, params, prim):
    cn, bn = params["cond_nconsts"], params["body_nconsts"]
    cj, bj = params["cond_jaxpr"], params["body_jaxpr"]
    cconsts, bconsts, carry = list(args[:cn]), list(args[cn : cn + bn]), list(args[cn + bn :])
    with core.set_current_trace(trace):
        for _ in range(10000):
            (c,) = core.eval_jaxpr(cj.jaxpr, cj.consts, *cconsts, *carry)
            if isinstance(c, SymTracer):
                cv = c.val[()]
                if is_sym(cv):
                    raise Unsupported("while with symbolic condition")
                c = cv
            if not bool(c):
                break
            carry = list(core.eval_jaxpr(bj.jaxpr, bj.consts, *bconsts, *carry))
        else:
            raise Unsupported("while did not terminate")
    return carry


@rule("cond")
def _cond(trace, args, avals, params, prim):
    idx = args[0]
    branches = params["branches"]
    ops = list(args[1:])
    if isinstance(idx, SymTracer):
        iv = _py(force(idx.val[()]))
        if is_sym(iv):
            raise Unsupported("cond on symbolic predicate")
        idx = iv
    br = branches[int(idx)]
    with core.set_current_trace(trace):
        return list(core.eval_jaxpr(br.jaxpr, br.consts, *ops))


# ----------------------------------------------------------------------------------
# PRNG: provenance terms
# ----------------------------------------------------------------------------------
# keys form a free term algebra (z3 algebraic datatype: constructors are injective and disjoint), so
# "two provenance terms are different for every seed" is something the solver can decide
_K = z3.Datatype("Key")
_K.declare("seedkey", ("seed", z3.IntSort()))
_K.declare("split", ("parent", _K), ("index", z3.IntSort()))
_K.declare("fold_in", ("fparent", _K), ("data", z3.IntSort()))
KeyS = _K.create()
SEED = KeyS.seedkey
SPLIT = KeyS.split
FOLD = KeyS.fold_in
UNI = z3.Function("uni", KeyS, z3.IntSort(), z3.RealSort())
UNI_TERMS: list = []
BITS_KEYS: list = []  # every key term that reached random_bits (with multiplicity)


def _keyaval(prim, avals, params):
    return prim.abstract_eval(*avals, **params)[0]


@rule("random_seed")
def _seed(trace, args, avals, params, prim):
    s = to_obj(args[0])
    out = np.empty(s.shape, dtype=object)
    for i in np.ndindex(*s.shape):
        out[i] = SEED(z(force(s[i])))
    return (out, _keyaval(prim, avals, params))


@rule("random_unwrap")
def _unwrap(trace, args, avals, params, prim):
    k = to_obj(args[0])
    out = np.empty(k.shape + (2,), dtype=object)
    for i in np.ndindex(*k.shape):
        out[i + (0,)] = Opaque("kd", k[i], 0)
        out[i + (1,)] = Opaque("kd", k[i], 1)
    return (out, _keyaval(prim, avals, params))


@rule("random_wrap")
def _wrap(trace, args, avals, params, prim):
    d = to_obj(args[0])
    out = np.empty(d.shape[:-1], dtype=object)
    for i in np.ndindex(*out.shape):
        a, b = d[i + (0,)], d[i + (1,)]
        if not (isinstance(a, Opaque) and isinstance(b, Opaque) and a.kind == "kd" and a.key.eq(b.key) and (a.idx, b.idx) == (0, 1)):
            raise Unsupported("random_wrap of something that is not an intact key")
        out[i] = a.key
    return (out, _keyaval(prim, avals, params))


@rule("random_split")
def _split(trace, args, avals, params, prim):
    k = to_obj(args[0])
    shape = tuple(params["shape"])
    out = np.empty(k.shape + shape, dtype=object)
    for i in np.ndindex(*k.shape):
        for n, j in enumerate(np.ndindex(*shape)):
            out[i + j] = SPLIT(k[i], z3.IntVal(n))
    return (out, _keyaval(prim, avals, params))


@rule("random_fold_in")
def _fold_in(trace, args, avals, params, prim):
    k = to_obj(args[0])
    d = to_obj(args[1])
    shape = np.broadcast_shapes(k.shape, d.shape)
    kb, db = np.broadcast_to(k, shape), np.broadcast_to(d, shape)
    out = np.empty(shape, dtype=object)
    for i in np.ndindex(*shape):
        out[i] = FOLD(kb[i], z(force(db[i])))
    return (out, _keyaval(prim, avals, params))


@rule("random_bits")
def _bits(trace, args, avals, params, prim):
    k = to_obj(args[0])
    shape = tuple(params["shape"])
    out = np.empty(k.shape + shape, dtype=object)
    for i in np.ndindex(*k.shape):
        BITS_KEYS.append(k[i])
        for n, j in enumerate(np.ndindex(*shape)):
            out[i + j] = Opaque("bits", k[i], n)
    return (out, _keyaval(prim, avals, params))


def _opaque_passthru(a, aval):
    out = np.empty(a.shape, dtype=object)
    for i in np.ndindex(*a.shape):
        v = a[i]
        if not (isinstance(v, Opaque) and v.kind in ("bits", "mant")):
            raise Unsupported("bit manipulation of non-random bits")
        out[i] = Opaque("mant", v.key, v.idx)
    return (out, aval)


@rule("shift_right_logical")
def _srl(trace, args, avals, params, prim):
    return _opaque_passthru(to_obj(args[0]), avals[0])


@rule("bitcast_convert_type")
def _bitcast(trace, args, avals, params, prim):
    a = to_obj(args[0])
    out = np.empty(a.shape, dtype=object)
    for i in np.ndindex(*a.shape):
        v = a[i]
        if not (isinstance(v, Opaque) and v.kind == "mant"):
            raise Unsupported("bitcast of non-mantissa payload")
        u = UNI(v.key, z3.IntVal(v.idx))
        UNI_TERMS.append(u)
        out[i] = 1 + u  # JAX's mantissa trick: a float in [1,2)
    return (out, core.ShapedArray(a.shape, np.dtype(params["new_dtype"])))


# ----------------------------------------------------------------------------------
# uninterpreted-function primitive (lets an arbitrary scalar function pass through vmap)
# ----------------------------------------------------------------------------------
from jax._src.interpreters import batching  # noqa: E402

uf_p = core.Primitive("uf")


def uf_call(name, *args):
    args = [a if isinstance(a, core.Tracer) else jnp.asarray(a, dtype=jnp.float64) for a in args]
    return uf_p.bind(*args, name=name)


@uf_p.def_abstract_eval
def _uf_abs(*avals, name):
    shape = np.broadcast_shapes(*[a.shape for a in avals])
    return core.ShapedArray(shape, np.dtype(np.float64))


def _uf_batch(args, dims, *, name):
    size = next(a.shape[d] for a, d in zip(args, dims) if d is not None)
    args = [batching.bdim_at_front(a, d, size) for a, d in zip(args, dims)]
    r = max(a.ndim for a in args)
    args = [a.reshape(a.shape[:1] + (1,) * (r - a.ndim) + a.shape[1:]) for a in args]
    return uf_p.bind(*args, name=name), 0


batching.primitive_batchers[uf_p] = _uf_batch


@rule("uf")
def _uf_rule(trace, args, avals, params, prim):
    objs = [to_obj(a) for a in args]
    shape = np.broadcast_shapes(*[o.shape for o in objs])
    F = z3.Function(params["name"], *([z3.RealSort()] * (len(objs) + 1)))
    out = np.empty(shape, dtype=object)
    bs = [np.broadcast_to(o, shape) for o in objs]
    for idx in np.ndindex(*shape):
        out[idx] = F(*[zr(force(b[idx])) for b in bs])
    return (out, core.ShapedArray(shape, np.dtype(np.float64)))


# ----------------------------------------------------------------------------------
# forking at concretisation requests (data-dependent shapes)
# ----------------------------------------------------------------------------------
class PathCapExceeded(Exception):
    pass


class PathCondition(list):
    """list of conjuncts; `marks[t]` = number of conjuncts recorded up to the end of period t"""

    def __init__(self, conj, marks=()):
        super().__init__(conj)
        self.marks = list(marks)

    def upto(self, t):
        if t < len(self.marks):
            return list(self[: self.marks[t]])
        return list(self)


ACTIVE_FORKER = [None]


class Forker:
    def __init__(self, base=(), prefix=()):
        self.base = list(base)
        self.prefix = list(prefix)
        self.trail = []  # (flat terms, chosen values)
        self.pc = []
        self.marks = []  # len(pc) at the end of each simulated period (set by the harness' log handler)

    def concretize(self, obj, aval):
        flat = [force(t) for t in obj.reshape(-1)]
        i = len(self.trail)
        if any(isinstance(t, (XR, Opaque)) for t in flat):
            raise Unsupported("concretisation of extended/opaque value")
        if i < len(self.prefix):
            val = self.prefix[i]
        else:
            s = z3.Solver()
            s.add(self.base + self.pc)
            if str(s.check()) != "sat":
                raise Unsupported("path condition not satisfiable at concretisation")
            mdl = s.model()
            val = []
            for t in flat:
                if is_sym(t):
                    v = mdl.eval(z(t), model_completion=True)
                    if z3.is_bool(v):
                        val.append(z3.is_true(v))
                    elif z3.is_int_value(v):
                        val.append(v.as_long())
                    else:
                        raise Unsupported("concretisation of a real-valued term (infinitely many paths)")
                else:
                    val.append(t)
        self.trail.append((flat, list(val)))
        conj = [z(t) == z(conc(v)) for t, v in zip(flat, val) if is_sym(t)]
        if conj:
            self.pc.append(z3.And(conj) if len(conj) > 1 else conj[0])
        else:
            self.pc.append(z3.BoolVal(True))
        return np.array([float(v) if isinstance(v, Fraction) else v for v in val], dtype=aval.dtype).reshape(aval.shape)


# ----------------------------------------------------------------------------------
# user API
# ----------------------------------------------------------------------------------
class Session:
    def __init__(self):
        self.trace = SymTrace()
        self.symbols = {}

    # -- symbol creation ------------------------------------------------------------
    def _mk(self, name, shape, ctor, dtype):
        arr = np.empty(shape, dtype=object)
        if shape == ():
            s = ctor(name)
            self.symbols[name] = s
            arr[()] = s
        else:
            for idx in np.ndindex(*shape):
                nm = name + "_" + "_".join(map(str, idx))
                s = ctor(nm)
                self.symbols[nm] = s
                arr[idx] = s
        return self.trace.lift(arr, dtype)

    def real(self, name, shape=()):
        return self._mk(name, tuple(shape), z3.Real, np.float64)

    def int(self, name, shape=()):
        return self._mk(name, tuple(shape), z3.Int, np.int64)

    def bool(self, name, shape=()):
        return self._mk(name, tuple(shape), z3.Bool, np.bool_)

    def lift(self, x, dtype=np.float64):
        arr = np.empty(np.shape(x), dtype=object) if not isinstance(x, np.ndarray) else x
        if not isinstance(x, np.ndarray):
            if arr.shape == ():
                arr[()] = x
            else:
                src = np.array(x, dtype=object)
                arr = src
        return self.trace.lift(arr, dtype)

    # -- running --------------------------------------------------------------------
    def run(self, f, *args, **kwargs):
        with core.set_current_trace(self.trace):
            return f(*args, **kwargs)

    def run_paths(self, f, *args, base=(), cap=64, **kwargs):
        """run f on every path (DFS over concretisation decisions); returns [(pc, out)]"""
        results = []
        base = list(base)

        def explore(prefix):
            if len(results) >= cap:
                raise PathCapExceeded(cap)
            fk = Forker(base=base, prefix=prefix)
            self.trace.forker = fk
            ACTIVE_FORKER[0] = fk
            try:
                out = self.run(f, *args, **kwargs)
            finally:
                self.trace.forker = None
                ACTIVE_FORKER[0] = None
            results.append((PathCondition(fk.pc, fk.marks), out))
            trail = fk.trail
            for i in range(len(prefix), len(trail)):
                flat, val = trail[i]
                symi = [k for k, t in enumerate(flat) if is_sym(t)]
                if not symi:
                    continue
                seen = [val]
                while True:
                    s = z3.Solver()
                    s.add(base + fk.pc[:i])
                    for sv in seen:
                        s.add(z3.Or([z(flat[k]) != z(conc(sv[k])) for k in symi]))
                    r = str(s.check())
                    if r == "unsat":
                        break
                    if r != "sat":
                        raise Unsupported("solver unknown while enumerating paths")
                    mdl = s.model()
                    alt = []
                    for t in flat:
                        if is_sym(t):
                            v = mdl.eval(z(t), model_completion=True)
                            if z3.is_bool(v):
                                alt.append(z3.is_true(v))
                            elif z3.is_int_value(v):
                                alt.append(v.as_long())
                            else:
                                raise Unsupported("real-valued concretisation")
                        else:
                            alt.append(t)
                    seen.append(alt)
                    explore([tv for (_, tv) in trail[:i]] + [alt])

        explore([])
        return results


def terms(x):
    if isinstance(x, SymTracer):
        return x.val
    return to_obj(x)


def scalar(x):
    """the single element of a 0-d value as a scalar term"""
    return force(terms(x).reshape(-1)[0])


# ----------------------------------------------------------------------------------
# term utilities
# ----------------------------------------------------------------------------------
def x_eq(a, b):
    """equality of two extended-real / plain scalars as a Bool term"""
    return _cmp("eq", a, b)


def evaluate(term, assignment):
    """evaluate a scalar (maybe XR) under {z3 const -> python/Fraction value}; returns
    python value (-inf possible)"""
    term = strip_tags(force(term))
    if isinstance(term, XR):
        n = evaluate(term.ninf, assignment)
        if n:
            return NINF
        return evaluate(term.val, assignment)
    if not is_sym(term):
        return term
    subs = [(k, z(v)) for k, v in assignment.items()]
    # z3 substitute needs matching sorts
    subs = [(k, (zr(v) if z3.is_real(k) else v)) for k, v in subs]
    r = z3.simplify(z3.substitute(term, *subs))
    return from_z3_value(r)


def from_z3_value(r):
    if z3.is_true(r):
        return True
    if z3.is_false(r):
        return False
    if z3.is_int_value(r):
        return r.as_long()
    if z3.is_rational_value(r):
        return r.as_fraction()
    if z3.is_algebraic_value(r):
        return Fraction(r.approx(30).as_fraction())
    raise ValueError(f"term did not evaluate to a value: {r}")


def model_value(mdl, term):
    term = force(term)
    if isinstance(term, XR):
        if model_value(mdl, term.ninf):
            return NINF
        return model_value(mdl, term.val)
    if not is_sym(term):
        return term
    return from_z3_value(mdl.eval(z(term), model_completion=True))


def free_consts(term, acc=None, seen=None):
    acc = {} if acc is None else acc
    seen = set() if seen is None else seen
    term = force(term)
    if isinstance(term, XR):
        free_consts(term.ninf, acc, seen)
        free_consts(term.val, acc, seen)
        return acc
    if not isinstance(term, z3.ExprRef):
        return acc
    stack = [term]
    while stack:
        e = stack.pop()
        i = e.get_id()
        if i in seen:
            continue
        seen.add(i)
        if z3.is_const(e) and e.decl().kind() == z3.Z3_OP_UNINTERPRETED:
            acc[str(e)] = e
        else:
            stack.extend(e.children())
    return acc


def eval_float(term, assignment):
    """numeric evaluation of a term (exp/log interpreted by libm) under {name: value}"""
    term = strip_tags(force(term))
    if isinstance(term, XR):
        if eval_float(term.ninf, assignment):
            return NINF
        return eval_float(term.val, assignment)
    if not is_sym(term):
        return float(term) if not isinstance(term, bool) else term
    memo = {}

    def ev(e):
        i = e.get_id()
        if i in memo:
            return memo[i]
        k = e.decl().kind() if z3.is_app(e) else None
        if z3.is_true(e):
            r = True
        elif z3.is_false(e):
            r = False
        elif z3.is_int_value(e):
            r = e.as_long()
        elif z3.is_rational_value(e):
            r = float(e.as_fraction())
        elif z3.is_const(e) and k == z3.Z3_OP_UNINTERPRETED:
            v = assignment[str(e)]
            r = v if isinstance(v, (bool, int)) else float(v)
        else:
            ch = [ev(c) for c in e.children()]
            nm = e.decl().name()
            if k == z3.Z3_OP_ADD:
                r = sum(ch)
            elif k == z3.Z3_OP_SUB:
                r = ch[0] - sum(ch[1:])
            elif k == z3.Z3_OP_MUL:
                r = 1
                for c in ch:
                    r = r * c
            elif k in (z3.Z3_OP_DIV,):
                r = ch[0] / ch[1]
            elif k == z3.Z3_OP_UMINUS:
                r = -ch[0]
            elif k == z3.Z3_OP_ITE:
                r = ch[1] if ch[0] else ch[2]
            elif k == z3.Z3_OP_LE:
                r = ch[0] <= ch[1]
            elif k == z3.Z3_OP_LT:
                r = ch[0] < ch[1]
            elif k == z3.Z3_OP_GE:
                r = ch[0] >= ch[1]
            elif k == z3.Z3_OP_GT:
                r = ch[0] > ch[1]
            elif k == z3.Z3_OP_EQ:
                r = ch[0] == ch[1]
            elif k == z3.Z3_OP_DISTINCT:
                r = ch[0] != ch[1]
            elif k == z3.Z3_OP_AND:
                r = all(ch)
            elif k == z3.Z3_OP_OR:
                r = any(ch)
            elif k == z3.Z3_OP_NOT:
                r = not ch[0]
            elif k == z3.Z3_OP_TO_REAL:
                r = float(ch[0])
            elif k == z3.Z3_OP_TO_INT:
                r = math.floor(ch[0])
            elif k == z3.Z3_OP_UNINTERPRETED and nm == "exp":
                r = math.exp(ch[0])
            elif k == z3.Z3_OP_UNINTERPRETED and nm == "log":
                r = math.log(ch[0])
            else:
                raise ValueError(f"eval_float: unsupported {e.decl()}")
        memo[i] = r
        return r

    return ev(z(term))
