"""`refsem`: reference semantics of a user `Model`, independent of lcm internals.

Reads only the user-facing object: `states`, `choices`, `functions`, `n_periods`, the documented
naming conventions (`next_*`, `*_filter`, `*_constraint`, `lcm.mark.stochastic`) and the public
`Grid.to_jax()`.  User functions are evaluated on scalar terms (through the symjax value model -
they are harness code, not lcm code); everything else - DAG resolution, loops over grid states
and choices, feasibility, maximisation, expectation, multilinear interpolation, the documented
array layout, the simulation step - is written here from the documentation.
"""
from __future__ import annotations

import inspect
import itertools
from fractions import Fraction

import numpy as np
import z3

from . import symjax as sj
from .harness import HarnessError


class PreconditionViolated(Exception):
    """the template leaves the 'supported model' class of the property"""


def exact_nodes(grid):
    """materialised nodes (public to_jax) as exact rationals; must equal the ideal nodes"""
    from lcm.grids import DiscreteGrid, LinspaceGrid

    arr = np.asarray(grid.to_jax())
    if isinstance(grid, DiscreteGrid):
        return [int(v) for v in arr]
    nodes = [Fraction(float(v)) for v in arr]
    if isinstance(grid, LinspaceGrid):
        n = grid.n_points
        ideal = [Fraction(grid.start) + Fraction(i, max(n - 1, 1)) * (Fraction(grid.stop) - Fraction(grid.start)) for i in range(n)]
        if nodes != ideal:
            raise HarnessError(f"harness grid {grid} is not exactly representable in floats: {nodes} vs {ideal}")
    return nodes


def masked_max(cands):
    """cands: list of (feasible: bool term, value: scalar/XR).  Returns XR-like scalar: -inf if none feasible."""
    none = True
    best = Fraction(0)
    for feas, val in cands:
        vn, vv = sj.split_x(sj.force(val))
        ok = sj.b_and(feas, sj.b_not(vn))
        if ok is False:
            continue
        take = sj.b_and(ok, sj.b_or(none, sj._cmp("gt", vv, best)))
        best = sj.ite(take, vv, best)
        none = sj.b_and(none, sj.b_not(ok))
    return sj.mk_x(none, best)


class Ref:
    def __init__(self, model, params, S, ambient=()):
        self.m = model
        self.p = params
        self.S = S
        self.T = model.n_periods
        self.funcs = dict(model.functions)
        self.states = list(model.states)
        self.choices = list(model.choices)
        self.grid = {n: exact_nodes(g) for n, g in {**model.states, **model.choices}.items()}
        from lcm.grids import ContinuousGrid

        self.is_cont = {n: isinstance(g, ContinuousGrid) for n, g in {**model.states, **model.choices}.items()}
        self.filters = [n for n in self.funcs if n.endswith("_filter")]
        self.constraints = [n for n in self.funcs if n.endswith("_constraint")]
        self.stoch = {s for s in self.states if hasattr(self.funcs.get("next_" + s), "_stochastic_info")}
        self.ambient = list(ambient)
        anc = set()
        for f in self.filters:
            self._ancestors(f, anc)
        self.restricted_states = [s for s in self.states if s in anc]
        self.restricted_choices = [c for c in self.choices if c in anc]
        self.unres_disc_states = [s for s in self.states if s not in anc and not self.is_cont[s]]
        self.cont_states = [s for s in self.states if self.is_cont[s]]
        self._pass_cache = {}

    # -- DAG ------------------------------------------------------------------------
    def _ancestors(self, fname, acc):
        for a in inspect.signature(self.funcs[fname]).parameters:
            if a in self.funcs:
                self._ancestors(a, acc)
            else:
                acc.add(a)

    def _param(self, fname, pname):
        try:
            return self.p[fname][pname]
        except (KeyError, TypeError):
            raise HarnessError(f"no value for argument {pname} of {fname}") from None

    def _lift(self, v):
        if isinstance(v, (bool, int, np.integer)):
            return int(v)
        if isinstance(v, Fraction):
            if v.denominator == 1 or sj._exact_float(v):
                return self.S.lift(v)
            return self.S.lift(v)
        if isinstance(v, (z3.ExprRef, sj.XR)):
            if isinstance(v, z3.ExprRef) and z3.is_int(v):
                return self.S.lift(v, np.int64)
            return self.S.lift(v)
        return v

    def eval(self, fname, env, t, memo=None):
        """value of model function `fname` at the variable values `env` in period t"""
        memo = {} if memo is None else memo
        if fname in memo:
            return memo[fname]
        f = self.funcs[fname]
        kwargs = {}
        for a in inspect.signature(f).parameters:
            if a in env:
                kwargs[a] = self._lift(env[a])
            elif a == "_period":
                kwargs[a] = t
            elif a in self.funcs:
                kwargs[a] = self._lift(self.eval(a, env, t, memo))
            else:
                kwargs[a] = self._param(fname, a)
        out = self.S.run(f, **kwargs)
        if isinstance(out, sj.SymTracer):
            r = sj.force(sj.scalar(out))
        else:
            r = sj.conc(np.asarray(out)[()])
        memo[fname] = r
        return r

    # -- feasibility ------------------------------------------------------------------
    def filters_pass(self, env, t):
        ok = True
        memo = {}
        for f in self.filters:
            v = self.eval(f, env, t, memo)
            if sj.is_sym(v):
                raise PreconditionViolated(f"filter {f} is not concrete")
            ok = ok and bool(v)
        return ok

    def constraints_hold(self, env, t, memo=None):
        memo = {} if memo is None else memo
        acc = True
        for c in self.constraints:
            acc = sj.b_and(acc, self.eval(c, env, t, memo))
        return acc

    def feasible_restricted_states(self, t):
        """restricted-state combinations (index tuples, row-major in declaration order) that admit
        at least one filter-passing choice in period t"""
        if t in self._pass_cache:
            return self._pass_cache[t]
        out = []
        rs, rc = self.restricted_states, self.restricted_choices
        for sidx in itertools.product(*[range(len(self.grid[s])) for s in rs]):
            env = {s: self.grid[s][i] for s, i in zip(rs, sidx)}
            anyc = False
            for cidx in itertools.product(*[range(len(self.grid[c])) for c in rc]):
                e2 = dict(env)
                e2.update({c: self.grid[c][i] for c, i in zip(rc, cidx)})
                if self._restricted_filters_pass(e2, t):
                    anyc = True
                    break
            if anyc:
                out.append(sidx)
        self._pass_cache[t] = out
        return out

    def _restricted_filters_pass(self, env, t):
        return self.filters_pass(env, t)

    # -- documented array layout (C05) --------------------------------------------------
    def layout(self, t):
        feas = self.feasible_restricted_states(t) if self.restricted_states else None
        shape = ([len(feas)] if feas is not None else []) + [len(self.grid[s]) for s in self.unres_disc_states] + [len(self.grid[s]) for s in self.cont_states]
        rank = {c: i for i, c in enumerate(feas)} if feas is not None else None

        def index(sidx_by_name):
            idx = []
            if feas is not None:
                key = tuple(sidx_by_name[s] for s in self.restricted_states)
                if key not in rank:
                    return None
                idx.append(rank[key])
            idx += [sidx_by_name[s] for s in self.unres_disc_states]
            idx += [sidx_by_name[s] for s in self.cont_states]
            return tuple(idx)

        return tuple(shape), index

    def states_in_space(self, t):
        feas = set(self.feasible_restricted_states(t)) if self.restricted_states else None
        for sidx in itertools.product(*[range(len(self.grid[s])) for s in self.states]):
            byname = dict(zip(self.states, sidx))
            if feas is not None and tuple(byname[s] for s in self.restricted_states) not in feas:
                continue
            yield sidx, byname

    def array_to_dict(self, t, arr_terms):
        """interpret a value array in the documented layout as {state index tuple: term}"""
        shape, index = self.layout(t)
        if tuple(arr_terms.shape) != shape:
            raise HarnessError(f"value array for period {t} has shape {arr_terms.shape}, documented layout is {shape}")
        return {sidx: arr_terms[index(byname)] for sidx, byname in self.states_in_space(t)}

    # -- V_next as a function -------------------------------------------------------------
    def lookup(self, Vnext, nxt):
        """Vnext: {state index tuple: term}; nxt: {state: value (label / real term)}.
        exact in discrete states, multilinear (outermost cell continued) in continuous ones"""
        names = self.states
        missing = []

        def rec(i, prefix):
            if i == len(names):
                key = tuple(prefix)
                if key not in Vnext:
                    missing.append(key)
                    sj.OOB[0] += 1
                    return z3.Real(f"unreachable_state_{sj.OOB[0]}")
                return Vnext[key]
            s = names[i]
            v = nxt[s]
            n = len(self.grid[s])
            if not self.is_cont[s]:
                v = sj._py(sj.force(v))
                if not sj.is_sym(v):
                    k = int(v)
                    if not 0 <= k < n:
                        raise PreconditionViolated(f"transition leaves the grid of {s}: {k}")
                    return rec(i + 1, prefix + [k])
                return sj.sym_index(lambda k: rec(i + 1, prefix + [k]), n, v)
            g = self.grid[s]
            if n == 1:
                return rec(i + 1, prefix + [0])

            def cellval(k):
                tpos = sj._arith("div", sj._arith("sub", v, g[k]), g[k + 1] - g[k])
                lo = rec(i + 1, prefix + [k])
                hi = rec(i + 1, prefix + [k + 1])
                return sj._arith("add", sj._arith("mul", sj._arith("sub", 1, tpos), lo), sj._arith("mul", tpos, hi))

            if not sj.is_sym(v):
                k = 0
                while k < n - 2 and v >= g[k + 1]:
                    k += 1
                return cellval(k)
            acc = cellval(n - 2)
            for k in range(n - 3, -1, -1):
                cond = sj._cmp("lt", v, g[k + 1])
                sj.register_cell_atom(cond)
                acc = sj.ite(cond, cellval(k), acc)
            return acc

        out = rec(0, [])
        return out, missing

    # -- the Bellman operator -------------------------------------------------------------
    def next_states(self, env, t, memo=None):
        """deterministic next values and stochastic nodes: ({state: value}, [(state, [(label, weight)])])"""
        memo = {} if memo is None else memo
        det, sto = {}, []
        for s in self.states:
            f = self.funcs["next_" + s]
            if s in self.stoch:
                deps = list(inspect.signature(f).parameters)
                idx = []
                for a in deps:
                    if a == "_period":
                        idx.append(t)
                    elif a in env:
                        idx.append(env[a])
                    else:
                        raise PreconditionViolated(f"stochastic transition of {s} depends on {a}")
                P = sj.terms(self.p["shocks"][s])
                row = self._index_row(P, idx)
                sto.append((s, [(k, row[k]) for k in range(len(self.grid[s]))]))
            else:
                det[s] = self.eval("next_" + s, env, t, memo)
        return det, sto

    def _index_row(self, P, idx):
        """P[idx...] -> 1d object array of weights; indices may be symbolic ints"""

        def rec(arr, rest):
            if not rest:
                return [arr[k] for k in range(arr.shape[0])]
            i = sj._py(sj.force(rest[0]))
            if not sj.is_sym(i):
                return rec(arr[int(i)], rest[1:])
            rows = [rec(arr[k], rest[1:]) for k in range(arr.shape[0])]
            return [sj.sym_index(lambda k, j=j: rows[k][j], arr.shape[0], i) for j in range(len(rows[0]))]

        return rec(P, list(idx))

    def Q(self, env, t, Vnext, memo=None):
        memo = {} if memo is None else memo
        u = self.eval("utility", env, t, memo)
        if t == self.T - 1 or Vnext is None:
            return u
        det, sto = self.next_states(env, t, memo)
        ev = Fraction(0)
        for combo in itertools.product(*[nodes for (_, nodes) in sto]):
            nxt = dict(det)
            w = Fraction(1)
            for (s, _), (k, pk) in zip(sto, combo):
                nxt[s] = k
                w = sj._arith("mul", w, pk)
            v, missing = self.lookup(Vnext, nxt)
            if missing and all(not sj.is_sym(sj._py(sj.force(nxt[s]))) for s in self.states if not self.is_cont[s]):
                raise PreconditionViolated(f"transition from {env} leads into excluded state {missing[0]}")
            ev = sj._arith("add", ev, sj._arith("mul", w, v))
        beta = self.p["beta"]
        beta = sj.scalar(beta) if isinstance(beta, sj.SymTracer) else sj.conc(np.asarray(beta)[()])
        return sj._arith("add", u, sj._arith("mul", beta, ev))

    def choice_candidates(self, senv, t, Vnext):
        """[(choice index tuple, choice env, feasible term, Q term)] over all filter-passing grid choices"""
        out = []
        for cidx in itertools.product(*[range(len(self.grid[c])) for c in self.choices]):
            env = dict(senv)
            env.update({c: self.grid[c][i] for c, i in zip(self.choices, cidx)})
            if not self.filters_pass({k: v for k, v in env.items()}, t):
                continue
            memo = {}
            feas = self.constraints_hold(env, t, memo)
            if feas is False:
                continue
            q = self.Q(env, t, Vnext, memo)
            out.append((cidx, env, feas, q))
        return out

    def simplify_x(self, v):
        """drop the -inf flag of an extended real if it is impossible under the ambient assumptions"""
        if isinstance(v, sj.XR) and self.ambient:
            s = z3.Solver()
            s.set("timeout", 10000)
            s.add(self.ambient)
            s.add(sj.z(v.ninf))
            if str(s.check()) == "unsat":
                return v.val
        return v

    def solve(self):
        """backward induction on the grid: list over periods of {state index tuple: value}"""
        V = [None] * self.T
        for t in reversed(range(self.T)):
            Vt = {}
            Vnext = V[t + 1] if t < self.T - 1 else None
            for sidx, byname in self.states_in_space(t):
                senv = {s: self.grid[s][i] for s, i in byname.items()}
                cands = self.choice_candidates(senv, t, Vnext)
                Vt[sidx] = sj.tag(self.simplify_x(masked_max([(f, q) for (_, _, f, q) in cands])))
            V[t] = Vt
        return V
