"""run one unit function in a fresh interpreter (own environment, e.g. PYTHONHASHSEED) and print
the recorder state as JSON on the last line of stdout"""
from __future__ import annotations

import importlib
import json
import sys


def main():
    spec = json.loads(sys.argv[1])
    sys.path.insert(0, "/verif")
    import jax

    jax.config.update("jax_enable_x64", True)
    from vf import harness
    from vf import symjax as sj

    mod = importlib.import_module(spec["module"])
    rec = harness.Recorder(spec["prop"], spec["unit"])
    if spec.get("replay"):
        rec.replay_target = (spec["replay"]["obligation"], harness.unjson(spec["replay"]["inputs"]))
    extra = None
    fe = harness.FunctionsEntered()
    try:
        with fe:
            extra = getattr(mod, spec["func"])(rec, **spec["kwargs"])
    except sj.Unsupported as e:
        rec.inconclusive("unit", f"Unsupported: {e}")
    except harness.HarnessError as e:
        rec.errors.append(f"HarnessError: {e}")
    except Exception as e:  # noqa: BLE001
        import traceback

        rec.errors.append(f"{type(e).__name__}: {e} {traceback.format_exc()[-800:]}")
    rec.functions |= fe.names
    state = {
        "obligations": rec.obligations,
        "violations": rec.violations,
        "errors": rec.errors,
        "queries": rec.queries,
        "solver_time": rec.solver_time,
        "twins": {k: list(v) for k, v in rec.twins.items()},
        "tv_points": rec.tv_points,
        "tv_maxdev": rec.tv_maxdev,
        "paths": rec.paths,
        "functions": sorted(rec.functions),
        "primitives": dict(getattr(rec, "primitives", {})),
        "extra": extra,
        "replay_outcome": rec.replay_outcome,
    }
    print("\n@@SUBUNIT@@" + json.dumps(harness.jsonable(state)))


if __name__ == "__main__":
    main()
