"""E2: run CrossHair on the PEP-316 harness functions of a file in /verif/ch.

Every function with a `post:` line is one obligation.  "Confirmed over all paths" = discharged;
a counterexample is re-executed concretely (replay) before it is reported; "Not confirmed" /
"Unable to meet precondition" = inconclusive.  For every function a reachability twin (same body,
postcondition `False`) must be *refuted* by CrossHair (vacuity guard).
"""
from __future__ import annotations

import ast
import concurrent.futures as cf
import importlib.util
import inspect
import os
import re
import subprocess
import sys
import time

GEN = "/verif/ch/_gen"


def _functions(path):
    src = open(path).read()
    tree = ast.parse(src)
    out = []
    for node in tree.body:
        if isinstance(node, ast.FunctionDef):
            doc = ast.get_docstring(node) or ""
            if re.search(r"^\s*post:", doc, re.M):
                out.append((node.name, node.lineno, doc))
    return src, out


def _twin_source(src):
    # replace every `post: ...` line by `post: False`
    return re.sub(r"^(\s*)post:.*$", r"\1post: False", src, flags=re.M)


def _run(path, line, timeout):
    cmd = [sys.executable, "-m", "crosshair", "check", "--report_all", "--per_condition_timeout", str(timeout), f"{path}:{line}"]
    env = dict(os.environ)
    env["PYTHONPATH"] = "/verif/ch:/verif:" + env.get("PYTHONPATH", "")
    t = time.time()
    try:
        p = subprocess.run(cmd, capture_output=True, text=True, timeout=timeout * 3 + 120, env=env, cwd="/verif/ch")
        out = p.stdout + p.stderr
    except subprocess.TimeoutExpired as e:
        out = "TIMEOUT " + str(e)
    return out, time.time() - t


def _load(path):
    name = "chmod_" + os.path.basename(path)[:-3]
    spec = importlib.util.spec_from_file_location(name, path)
    mod = importlib.util.module_from_spec(spec)
    sys.path.insert(0, "/verif/ch")
    spec.loader.exec_module(mod)
    return mod


def replay_call(path, fname, call_src):
    """execute the counterexample call for real; returns discrepancy dict or None"""
    mod = _load(path)
    f = getattr(mod, fname)
    doc = inspect.getdoc(f) or ""
    posts = [m.strip() for m in re.findall(r"^\s*post:(.*)$", doc, re.M)]
    pres = [m.strip() for m in re.findall(r"^\s*pre:(.*)$", doc, re.M)]
    raises = [x.strip() for m in re.findall(r"^\s*raises:(.*)$", doc, re.M) for x in m.split(",")]
    ns = dict(mod.__dict__)
    ns.setdefault("nan", float("nan"))
    ns.setdefault("inf", float("inf"))
    cap = {}

    def grab(*a, **k):
        cap["b"] = inspect.signature(f).bind(*a, **k)
        cap["b"].apply_defaults()
        return None

    try:
        eval(call_src.replace(fname, "__grab__", 1), {**ns, "__grab__": grab})
    except Exception as e:  # noqa: BLE001
        return {"what": f"could not parse counterexample call {call_src}: {e}", "unparsed": True}
    args = dict(cap["b"].arguments)
    custom = getattr(mod, "replay_" + fname, None)
    if custom is not None:
        # harness-provided concrete replay (e.g. materialises the grid and inspects the array)
        try:
            rep = custom(**args)
        except Exception as e:  # noqa: BLE001  (an exception the property does not allow escapes from the real code)
            if type(e).__name__ in raises:
                return None
            rep = {"what": f"{fname}: unexpected {type(e).__name__}: {e}", "observed": type(e).__name__, "expected": "post: " + "; ".join(posts)}
        if rep is not None:
            rep = dict(rep)
            rep["call"] = call_src
        return rep
    for p in pres:
        try:
            if not eval(p, ns, dict(args)):
                return None
        except Exception:  # noqa: BLE001
            return None
    try:
        ret = f(**args)
    except Exception as e:  # noqa: BLE001
        if type(e).__name__ in raises:
            return None
        return {"what": f"{fname}: unexpected {type(e).__name__}: {e}", "observed": type(e).__name__, "expected": "post: " + "; ".join(posts), "call": call_src}
    for p in posts:
        ok = eval(p, ns, {**args, "_": ret, "__return__": ret})
        if not ok:
            return {"what": f"{fname}: postcondition `{p}` is false", "observed": repr(ret)[:300], "expected": p, "call": call_src}
    return None


def run_crosshair(rec, path, timeout, jobs=8):
    src, funcs = _functions(path)
    os.makedirs(GEN, exist_ok=True)
    twin_path = os.path.join(GEN, "twin_" + os.path.basename(path))
    with open(twin_path, "w") as f:
        f.write(_twin_source(src))
    if rec.replay_target is not None:
        name, vals = rec.replay_target
        fname = name.split(":")[-1]
        rec.replay_outcome = replay_call(path, fname, vals.get("call", ""))
        return
    tasks = {}
    with cf.ThreadPoolExecutor(max_workers=jobs) as ex:
        for fname, line, doc in funcs:
            tasks[ex.submit(_run, path, line + 1, timeout)] = ("main", fname)
            tasks[ex.submit(_run, twin_path, line + 1, min(timeout, 30))] = ("twin", fname)
        results = {}
        for fut in cf.as_completed(tasks):
            results[tasks[fut]] = fut.result()
    for fname, line, doc in funcs:
        out, dt = results[("main", fname)]
        tout, _ = results[("twin", fname)]
        rec.queries += 2
        rec.solver_time += dt
        name = f"crosshair:{fname}"
        twin_ok = "error:" in tout and "false when calling" in tout
        rec.twins[name] = ("sat" if twin_ok else "unknown", name)
        ob = {"name": name, "unit": rec.unit, "time_s": round(dt, 2), "nontrivial": True, "distinct": True}
        m = re.search(r"error: (.*?) when calling (.*?)(?: \(which returns (.*)\))?$", out, re.M)
        if "Confirmed over all paths" in out and not m:
            if not twin_ok:
                ob["verdict"] = "unknown"
                ob["reason"] = "reachability twin was not refuted (possible vacuity): " + tout.strip()[-200:]
            else:
                ob["verdict"] = "unsat"
            if len([o for o in rec.obligations if "claim" in o]) < 2:
                ob["claim"] = "CrossHair: " + " ".join(l.strip() for l in doc.splitlines() if "post:" in l or "pre:" in l)
            rec.obligations.append(ob)
        elif m:
            call = m.group(2)
            rep = replay_call(path, fname, call)
            if rep is None or rep.get("unparsed"):
                ob["verdict"] = "sat-not-reproduced"
                rec.obligations.append(ob)
                rec.errors.append(f"{name}: CrossHair counterexample {call} did not reproduce ({rep})")
            else:
                ob["verdict"] = "sat"
                rec.obligations.append(ob)
                rep.update({"property": rec.prop, "unit": rec.unit, "obligation": name, "key": f"{rec.unit}/{name}", "inputs": {"call": call}})
                rec.violations.append(rep)
        else:
            ob["verdict"] = "unknown"
            tail = out.strip().splitlines()[-1][-200:] if out.strip() else "no output"
            ob["reason"] = "CrossHair: " + tail
            rec.obligations.append(ob)
