"""Model templates shared by the pipeline properties (C01-C13).

Each template is a small user `Model` whose functions are *separating*: utility is a free table
entry per discrete combination plus a distinct free coefficient per continuous argument, so any
wiring, axis or routing mistake changes the resulting term.  Grids are exactly representable
(n_points-1 a power of two, dyadic bounds) - checked by refsem on every run.

A template returns a `Tmpl` with
  model      : lcm.Model
  params(mk) : builds the params pytree with a factory `mk` (symjax Session or harness.Conc)
  assume(sy) : z3 constraints on the declared symbols (the template's "supported model" conditions)
  init(mk,n) : initial states for n agents (simulation)
"""
from __future__ import annotations

from dataclasses import dataclass, field, make_dataclass
from fractions import Fraction
from typing import Callable

import numpy as np

H = Fraction(1, 2)


def dg(n):
    from lcm import DiscreteGrid

    return DiscreteGrid(make_dataclass(f"L{n}", [(f"c{i}", int, i) for i in range(n)]))


def lin(a, b, n):
    from lcm import LinspaceGrid

    return LinspaceGrid(start=a, stop=b, n_points=n)


@dataclass
class Tmpl:
    name: str
    model: object
    params: Callable  # mk -> params pytree
    assume: Callable  # symbols dict -> list of z3 constraints
    init: Callable = None  # (mk, n_agents) -> initial_states dict
    notes: str = ""
    extra: dict = field(default_factory=dict)


def _pos(sy, *names):
    return [sy[n] > 0 for n in names if n in sy]


# ----------------------------------------------------------------------------------
# TA: continuous state + continuous choice + constraint + auxiliary function with parameter
# ----------------------------------------------------------------------------------
def TA(T=2, nw=5, nc=3, sym_k=False, sym_g=False, beta_sym=True, lower=False, int_init=False, borrow=False, vec_aux=False):
    from lcm import Model

    def utility(c, w, inc, tc, tw, ti):
        return tc * c + tw * w + ti * inc

    def inc(w, r):
        return r * w

    def next_w(w, c, g):
        return w - c + g

    def c_constraint(c, w, k):
        return c <= w - k

    def lo_constraint(c, lo):
        return c >= lo  # a lower bound: the infeasible grid choices are a *prefix* of the grid

    def b_constraint(next_w, g):
        # a constraint on the OUTPUT of a transition function with a parameter that has the same name as
        # a parameter of that function (params["b_constraint"]["g"] vs params["next_w"]["g"])
        return next_w >= g

    funcs = dict(utility=utility, inc=inc, next_w=next_w, c_constraint=c_constraint)
    if lower:
        funcs["lo_constraint"] = lo_constraint
    if borrow:
        funcs["b_constraint"] = b_constraint
    if vec_aux:
        import jax.numpy as jnp

        def coh(w, inc):
            # NOT elementwise on arrays: correct only if it is evaluated row by row
            return jnp.sum(jnp.array([w, inc]))

        funcs["coh"] = coh
    model = Model(
        n_periods=T,
        functions=funcs,
        choices=dict(c=lin(1, 3, nc)),
        states=dict(w=lin(1, 5, nw)),
    )

    def params(mk):
        p = {
            "beta": mk.real("beta") if beta_sym else 0.75,
            "utility": {"tc": mk.real("tc"), "tw": mk.real("tw"), "ti": mk.real("ti")},
            "inc": {"r": mk.real("r")},
            "next_w": {"g": mk.real("g") if sym_g else 0.5},
            "c_constraint": {"k": mk.real("k") if sym_k else 0.0},
        }
        if lower:
            p["lo_constraint"] = {"lo": mk.real("lo")}
        if borrow:
            p["b_constraint"] = {"g": mk.real("bmin")}
        if vec_aux:
            p["coh"] = {}
        return p

    def assume(sy):
        out = []
        if "k" in sy and T > 1:
            out.append(sy["k"] <= 0)  # some choice is feasible in every state (c=1 <= w-k for w>=1)
        if "g" in sy:
            out += [sy["g"] >= 0, sy["g"] <= 1]
        if "lo" in sy and T > 1:
            out.append(sy["lo"] <= 1)  # the smallest grid choice c=1 satisfies the lower bound
        if "bmin" in sy and T > 1:
            out.append(sy["bmin"] <= 0)  # c=1 stays feasible in every state (w - 1 + g >= 0 >= bmin)
        return out

    def init(mk, n):
        if int_init:
            return {"w": mk.int("w0", (n,))}  # a continuous state supplied as an INTEGER array
        return {"w": mk.real("w0", (n,))}

    return Tmpl(f"TA[T={T},nw={nw},nc={nc},k={'sym' if sym_k else 0},g={'sym' if sym_g else '1/2'},lower={lower},int_init={int_init}{',borrow' if borrow else ''}{',vec_aux' if vec_aux else ''}]", model, params, assume, init)


# ----------------------------------------------------------------------------------
# TB: unrestricted discrete state + unrestricted discrete choice + continuous state
# ----------------------------------------------------------------------------------
def TB(T=2, order=0):
    import jax.numpy as jnp
    from lcm import Model

    NH = jnp.array([[0, 1], [1, 2], [2, 0]])

    def utility(h, d, w, U, tw):
        return U[h, d] + tw * w

    def next_h(h, d):
        return NH[h, d]

    def next_w(w, d):
        return w * 0.5 + d * 0.5

    states = dict(h=dg(3), w=lin(0, 2, 3))
    if order == 1:
        states = dict(w=lin(0, 2, 3), h=dg(3))
    model = Model(n_periods=T, functions=dict(utility=utility, next_h=next_h, next_w=next_w), choices=dict(d=dg(2)), states=states)

    def params(mk):
        return {"beta": mk.real("beta"), "utility": {"U": mk.real("U", (3, 2)), "tw": mk.real("tw")}, "next_h": {}, "next_w": {}}

    def init(mk, n):
        import jax.numpy as jnp

        return {"h": jnp.arange(n) % 3, "w": mk.real("w0", (n,))}

    return Tmpl(f"TB[T={T},order={order}]", model, params, lambda sy: [], init)


# ----------------------------------------------------------------------------------
# TC: filtered state + filtered choice (absorbing retirement) + continuous state/choice + constraint
# ----------------------------------------------------------------------------------
def TC(T=2, nw=5, nc=3, order=0):
    import jax.numpy as jnp
    from lcm import Model

    def utility(c, r, lag, w, U, tc, tw):
        return U[lag, r] + tc * c + tw * w

    def next_lag(r):
        return r

    def next_w(w, c, r):
        return w - c + (1 - r) * 0.5

    def c_constraint(c, w):
        return c <= w

    def abs_filter(r, lag):
        return jnp.logical_or(r == 1, lag == 0)

    states = dict(lag=dg(2), w=lin(1, 5, nw))
    choices = dict(r=dg(2), c=lin(1, 3, nc))
    funcs = dict(utility=utility, next_lag=next_lag, next_w=next_w, c_constraint=c_constraint, abs_filter=abs_filter)
    if order == 1:
        states = dict(w=lin(1, 5, nw), lag=dg(2))
        choices = dict(c=lin(1, 3, nc), r=dg(2))
        funcs = dict(reversed(list(funcs.items())))
    model = Model(n_periods=T, functions=funcs, choices=choices, states=states)

    def params(mk):
        return {
            "beta": mk.real("beta"),
            "utility": {"U": mk.real("U", (2, 2)), "tc": mk.real("tc"), "tw": mk.real("tw")},
            "next_lag": {},
            "next_w": {},
            "c_constraint": {},
            "abs_filter": {},
        }

    def init(mk, n):
        import jax.numpy as jnp

        return {"lag": jnp.arange(n) % 2, "w": mk.real("w0", (n,))}

    return Tmpl(f"TC[T={T},nw={nw},nc={nc},order={order}]", model, params, lambda sy: [], init)


# ----------------------------------------------------------------------------------
# TD: TC + an unrestricted discrete choice + a second continuous choice of another size
# ----------------------------------------------------------------------------------
def TD(T=2, nw=3, with_x=True):
    import jax.numpy as jnp
    from lcm import Model

    if with_x:

        def utility(c, x, r, e, lag, w, U, E, tc, tx, tw):
            return U[lag, r] + E[e] + tc * c + tx * x + tw * w

        def next_w(w, c, x, r, e):
            return w - c + x * 0.5 + (1 - r) * 0.5 + e * 0.25
    else:

        def utility(c, r, e, lag, w, U, E, tc, tw):
            return U[lag, r] + E[e] + tc * c + tw * w

        def next_w(w, c, r, e):
            return w - c + (1 - r) * 0.5 + e * 0.25

    def next_lag(r):
        return r

    def c_constraint(c, w):
        return c <= w

    def abs_filter(r, lag):
        return jnp.logical_or(r == 1, lag == 0)

    choices = dict(r=dg(2), e=dg(3), c=lin(1, 3, 3))
    if with_x:
        choices["x"] = lin(0, 1, 2)
    model = Model(
        n_periods=T,
        functions=dict(utility=utility, next_lag=next_lag, next_w=next_w, c_constraint=c_constraint, abs_filter=abs_filter),
        choices=choices,
        states=dict(lag=dg(2), w=lin(1, 5, nw)),
    )

    def params(mk):
        u = {"U": mk.real("U", (2, 2)), "E": mk.real("E", (3,)), "tc": mk.real("tc"), "tw": mk.real("tw")}
        if with_x:
            u["tx"] = mk.real("tx")
        return {"beta": mk.real("beta"), "utility": u, "next_lag": {}, "next_w": {}, "c_constraint": {}, "abs_filter": {}}

    def init(mk, n):
        import jax.numpy as jnp

        return {"lag": jnp.arange(n) % 2, "w": mk.real("w0", (n,))}

    return Tmpl(f"TD[T={T},nw={nw},x={with_x}]", model, params, lambda sy: [], init)


# ----------------------------------------------------------------------------------
# TE: stochastic discrete state depending on (state, choice, _period)
# ----------------------------------------------------------------------------------
def TE(T=2, dep=("h", "d", "_period")):
    import lcm
    from lcm import Model

    def utility(h, d, w, U, tw):
        return U[h, d] + tw * w

    src = f"def next_h({', '.join(dep)}):\n    pass\n"
    ns = {}
    exec(src, ns)
    next_h = lcm.mark.stochastic(ns["next_h"])

    def next_w(w, d):
        return w * 0.5 + d * 0.5

    model = Model(n_periods=T, functions=dict(utility=utility, next_h=next_h, next_w=next_w), choices=dict(d=dg(2)), states=dict(h=dg(2), w=lin(0, 2, 3)))
    sizes = {"h": 2, "d": 2, "_period": T}
    pshape = tuple(sizes[a] for a in dep) + (2,)

    def params(mk):
        return {
            "beta": mk.real("beta"),
            "utility": {"U": mk.real("U", (2, 2)), "tw": mk.real("tw")},
            "next_h": {},
            "next_w": {},
            "shocks": {"h": mk.real("P", pshape)},
        }

    def assume(sy):
        return [s >= 0 for k, s in sy.items() if k.startswith("P_")]

    def init(mk, n):
        import jax.numpy as jnp

        return {"h": jnp.arange(n) % 2, "w": mk.real("w0", (n,))}

    return Tmpl(f"TE[T={T},dep={','.join(dep)}]", model, params, assume, init, extra={"pshape": pshape})


# ----------------------------------------------------------------------------------
# TF: period-dependent utility, transition and filter
# ----------------------------------------------------------------------------------
def TF(T=3):
    import jax.numpy as jnp
    from lcm import Model

    def utility(s, d, w, _period, U, tp):
        return U[s, d] + tp * _period * w

    def next_s(s, d, _period):
        return jnp.where(_period == 0, d, s)

    def next_w(w, _period):
        return w * 0.5 + _period * 0.25

    def p_filter(d, s, _period):
        return jnp.logical_or(d <= _period, s == 1)

    model = Model(
        n_periods=T,
        functions=dict(utility=utility, next_s=next_s, next_w=next_w, p_filter=p_filter),
        choices=dict(d=dg(2)),
        states=dict(s=dg(2), w=lin(0, 2, 3)),
    )

    def params(mk):
        return {"beta": mk.real("beta"), "utility": {"U": mk.real("U", (2, 2)), "tp": mk.real("tp")}, "next_s": {}, "next_w": {}, "p_filter": {}}

    def init(mk, n):
        import jax.numpy as jnp

        return {"s": jnp.arange(n) % 2, "w": mk.real("w0", (n,))}

    return Tmpl(f"TF[T={T}]", model, params, lambda sy: [], init)


# ----------------------------------------------------------------------------------
# TG: two continuous states, two continuous choices
# ----------------------------------------------------------------------------------
def TG(T=2, up=False):
    from lcm import Model

    def utility(c, x, w, v, tc, tx, tw, tv):
        return tc * c + tx * x + tw * w + tv * v

    if up:
        # next states leave BOTH grids at the top (linear continuation of the outermost cell)
        def next_w(w, c):
            return w + c * 0.5

        def next_v(v, x, w):
            return v + x * 0.5 + w * 0.25
    else:

        def next_w(w, c):
            return w - c * 0.5 + 0.25

        def next_v(v, x, w):
            return v * 0.5 + x * 0.5 + w * 0.125

    def cx_constraint(c, x, w, v):
        return c + x <= w + v

    model = Model(
        n_periods=T,
        functions=dict(utility=utility, next_w=next_w, next_v=next_v, cx_constraint=cx_constraint),
        choices=dict(c=lin(1, 2, 2), x=lin(0, 1, 3)),
        states=dict(w=lin(1, 3, 3), v=lin(0, 2, 3)),
    )

    def params(mk):
        return {
            "beta": mk.real("beta"),
            "utility": {k: mk.real(k) for k in ("tc", "tx", "tw", "tv")},
            "next_w": {},
            "next_v": {},
            "cx_constraint": {},
        }

    def init(mk, n):
        return {"w": mk.real("w0", (n,)), "v": mk.real("v0", (n,))}

    return Tmpl(f"TG[T={T},up={up}]", model, params, lambda sy: [], init)


# ----------------------------------------------------------------------------------
# TH: fully discrete
# ----------------------------------------------------------------------------------
def TH(T=3):
    import jax.numpy as jnp
    from lcm import Model

    NS = jnp.array([[0, 1], [2, 0], [1, 2]])

    def utility(s, d, U):
        return U[s, d]

    def next_s(s, d):
        return NS[s, d]

    model = Model(n_periods=T, functions=dict(utility=utility, next_s=next_s), choices=dict(d=dg(2)), states=dict(s=dg(3)))

    def params(mk):
        return {"beta": mk.real("beta"), "utility": {"U": mk.real("U", (3, 2))}, "next_s": {}}

    def init(mk, n):
        import jax.numpy as jnp

        return {"s": jnp.arange(n) % 3}

    return Tmpl(f"TH[T={T}]", model, params, lambda sy: [], init)


# ----------------------------------------------------------------------------------
# TJ: a restricted-state combination without any passing choice (excluded from the space)
# ----------------------------------------------------------------------------------
def TJ(T=2):
    import jax.numpy as jnp
    from lcm import Model

    NS = jnp.array([[0, 2], [0, 2], [2, 0]])

    def utility(s, d, w, U, tw):
        return U[s, d] + tw * w

    def next_s(s, d):
        return NS[s, d]

    def next_w(w, d):
        return w * 0.5 + d * 0.5

    def s_filter(s, d):
        return jnp.logical_and(s != 1, s + d <= 2)

    model = Model(
        n_periods=T,
        functions=dict(utility=utility, next_s=next_s, next_w=next_w, s_filter=s_filter),
        choices=dict(d=dg(2)),
        states=dict(s=dg(3), w=lin(0, 2, 3)),
    )

    def params(mk):
        return {"beta": mk.real("beta"), "utility": {"U": mk.real("U", (3, 2)), "tw": mk.real("tw")}, "next_s": {}, "next_w": {}, "s_filter": {}}

    def init(mk, n):
        import jax.numpy as jnp

        return {"s": jnp.array([0, 2, 0, 2][:n]), "w": mk.real("w0", (n,))}

    return Tmpl(f"TJ[T={T}]", model, params, lambda sy: [], init)


# ----------------------------------------------------------------------------------
# TK: two stochastic states with different dependency orders
# ----------------------------------------------------------------------------------
def TK(T=2):
    import lcm
    from lcm import Model

    def utility(h, p, d, U):
        return U[h, p, d]

    @lcm.mark.stochastic
    def next_h(d, h):
        pass

    @lcm.mark.stochastic
    def next_p(p, _period, h):
        pass

    model = Model(n_periods=T, functions=dict(utility=utility, next_h=next_h, next_p=next_p), choices=dict(d=dg(2)), states=dict(h=dg(3), p=dg(2)))

    def params(mk):
        return {
            "beta": mk.real("beta"),
            "utility": {"U": mk.real("U", (3, 2, 2))},
            "next_h": {},
            "next_p": {},
            "shocks": {"h": mk.real("PH", (2, 3, 3)), "p": mk.real("PP", (2, T, 3, 2))},
        }

    def assume(sy):
        return [s >= 0 for k, s in sy.items() if k.startswith("PH_") or k.startswith("PP_")]

    def init(mk, n):
        import jax.numpy as jnp

        return {"h": jnp.arange(n) % 3, "p": jnp.arange(n) % 2}

    return Tmpl(f"TK[T={T}]", model, params, assume, init)


# ----------------------------------------------------------------------------------
# TL: colliding parameter names in utility, auxiliary function, transition and constraint
# ----------------------------------------------------------------------------------
def TL(T=2, sym_next=False):
    from lcm import Model

    def utility(c, w, inc, a, b):
        return a * c + b * w + inc

    def inc(w, a):
        return a * w

    def next_w(w, c, a):
        return w - c + a

    def c_constraint(c, w, a):
        return c <= w + a

    model = Model(
        n_periods=T,
        functions=dict(utility=utility, inc=inc, next_w=next_w, c_constraint=c_constraint),
        choices=dict(c=lin(1, 3, 3)),
        states=dict(w=lin(1, 5, 5)),
    )

    def params(mk):
        return {
            "beta": mk.real("beta"),
            "utility": {"a": mk.real("a_u"), "b": mk.real("b_u")},
            "inc": {"a": mk.real("a_inc")},
            "next_w": {"a": mk.real("a_next") if sym_next else 0.5},
            "c_constraint": {"a": mk.real("a_con")},
        }

    def assume(sy):
        out = [sy["a_con"] >= 0]
        if "a_next" in sy:
            out += [sy["a_next"] >= 0, sy["a_next"] <= 1]
        return out

    def init(mk, n):
        return {"w": mk.real("w0", (n,))}

    return Tmpl(f"TL[T={T}]", model, params, assume, init)


REGISTRY = {"TA": TA, "TB": TB, "TC": TC, "TD": TD, "TE": TE, "TF": TF, "TG": TG, "TH": TH, "TJ": TJ, "TK": TK, "TL": TL}


def build(spec):
    """spec = (name, kwargs)"""
    name, kw = spec
    return REGISTRY[name](**kw)


# ----------------------------------------------------------------------------------
# TM: restricted state+choice, unrestricted discrete state+choice, continuous state (3 states)
# TN: two restricted states linked by a filter, two unrestricted discrete states of different size
# ----------------------------------------------------------------------------------
def TM(T=2):
    import jax.numpy as jnp
    from lcm import Model

    def utility(s, d, h, e, w, U, tw):
        return U[s, d, h, e] + tw * w

    def next_s(d):
        return d

    def next_h(h, e):
        return (h + e) % 3

    def next_w(w, e):
        return w * 0.5 + e * 0.25

    def sd_filter(s, d):
        return jnp.logical_or(d == 1, s == 0)

    model = Model(
        n_periods=T,
        functions=dict(utility=utility, next_s=next_s, next_h=next_h, next_w=next_w, sd_filter=sd_filter),
        choices=dict(d=dg(2), e=dg(2)),
        states=dict(s=dg(2), h=dg(3), w=lin(0, 2, 3)),
    )

    def params(mk):
        return {"beta": mk.real("beta"), "utility": {"U": mk.real("U", (2, 2, 3, 2)), "tw": mk.real("tw")}, "next_s": {}, "next_h": {}, "next_w": {}, "sd_filter": {}}

    def init(mk, n):
        import jax.numpy as jnp

        return {"s": jnp.arange(n) % 2, "h": jnp.arange(n) % 3, "w": mk.real("w0", (n,))}

    return Tmpl(f"TM[T={T}]", model, params, lambda sy: [], init)


def TN(T=2):
    import jax.numpy as jnp
    from lcm import Model

    def utility(s, q, d, h, g, U):
        return U[s, q, d, h, g]

    def next_s(s):
        return s

    def next_q(q, d):
        return jnp.minimum(q + d, 2) * (q + d <= 2) + q * (q + d > 2)

    def next_h(h, d):
        return (h + d) % 2

    def next_g(g):
        return (g + 1) % 3

    def sq_filter(s, q, d):
        # (s=1, q=0) admits no choice at all; d=1 is not allowed when q == 2
        return jnp.logical_and(jnp.logical_or(s == 0, q >= 1), q + d <= 2)

    model = Model(
        n_periods=T,
        functions=dict(utility=utility, next_s=next_s, next_q=next_q, next_h=next_h, next_g=next_g, sq_filter=sq_filter),
        choices=dict(d=dg(2)),
        states=dict(s=dg(2), q=dg(3), h=dg(2), g=dg(3)),
    )

    def params(mk):
        return {"beta": mk.real("beta"), "utility": {"U": mk.real("U", (2, 3, 2, 2, 3))}, "next_s": {}, "next_q": {}, "next_h": {}, "next_g": {}, "sq_filter": {}}

    def init(mk, n):
        import jax.numpy as jnp

        return {"s": jnp.zeros(n, dtype=int), "q": jnp.arange(n) % 3, "h": jnp.arange(n) % 2, "g": jnp.arange(n) % 3}

    return Tmpl(f"TN[T={T}]", model, params, lambda sy: [], init)


REGISTRY.update({"TM": TM, "TN": TN})


def permuted(tm, sorder=None, corder=None, forder=None):
    """the same model written down with another declaration order of states / choices / functions"""
    m = tm.model

    def reorder(d, order):
        if order is None:
            return dict(d)
        keys = list(d)
        return {keys[i]: d[keys[i]] for i in order}

    model = m.replace(states=reorder(m.states, sorder), choices=reorder(m.choices, corder), functions=reorder(m.functions, forder))
    return Tmpl(f"{tm.name}|s={sorder}|c={corder}|f={forder}", model, tm.params, tm.assume, tm.init, tm.notes, tm.extra)


_build_plain = build


def build(spec):  # noqa: F811
    """spec = (name, kwargs) or (name, kwargs, sorder, corder, forder)"""
    if len(spec) == 2:
        return _build_plain(spec)
    name, kw, so, co, fo = spec
    return permuted(_build_plain((name, kw)), so, co, fo)


def renamed(tm, name_map):
    """consistently rename model variables and auxiliary functions (naming conventions next_*,
    *_filter, *_constraint are kept); parameter names stay"""
    import inspect

    m = tm.model

    def rn(x):
        if x in name_map:
            return name_map[x]
        if x.startswith("next_") and x[5:] in name_map:
            return "next_" + name_map[x[5:]]
        return x

    new_funcs = {}
    for fname, f in m.functions.items():
        args = list(inspect.signature(f).parameters)
        new_args = [rn(a) for a in args]
        src = f"def g({', '.join(new_args)}):\n    return __f({', '.join(f'{a}={na}' for a, na in zip(args, new_args))})\n"
        ns = {"__f": f}
        exec(src, ns)
        g = ns["g"]
        if hasattr(f, "_stochastic_info"):
            g._stochastic_info = f._stochastic_info
        new_funcs[rn(fname)] = g
    model = m.replace(
        states={rn(k): v for k, v in m.states.items()},
        choices={rn(k): v for k, v in m.choices.items()},
        functions=new_funcs,
    )

    def params(mk):
        p = tm.params(mk)
        out = {}
        for k, v in p.items():
            if k == "shocks":
                out[k] = {rn(s): a for s, a in v.items()}
            else:
                out[rn(k)] = v
        return out

    def init(mk, n):
        return {rn(k): v for k, v in tm.init(mk, n).items()}

    t2 = Tmpl(f"{tm.name}|renamed", model, params, tm.assume, init, tm.notes, dict(tm.extra))
    t2.extra["name_map"] = dict(name_map)
    return t2


def with_functions(tm, extra_funcs, drop=(), tag="+"):
    """the same model with additional (e.g. always-true) functions / without some functions"""
    m = tm.model
    funcs = {k: v for k, v in m.functions.items() if k not in drop}
    funcs.update(extra_funcs)
    model = m.replace(functions=funcs)

    def params(mk):
        p = {k: v for k, v in tm.params(mk).items() if k not in drop}
        for k in extra_funcs:
            p.setdefault(k, {})
        return p

    return Tmpl(f"{tm.name}|{tag}", model, params, tm.assume, tm.init, tm.notes, dict(tm.extra))


# ----------------------------------------------------------------------------------
# TP: the set of restricted-state combinations that admit a choice CHANGES between periods
# (period 0 excludes s=0; later periods admit every state); transitions only lead into admitted states
# ----------------------------------------------------------------------------------
def TP(T=2, excluded_first=True):
    import jax.numpy as jnp
    from lcm import Model

    NS = jnp.array([[1, 2], [0, 2], [1, 0]])

    def utility(s, d, w, U, tw):
        return U[s, d] + tw * w

    def next_s(s, d):
        return NS[s, d]

    def next_w(w, d):
        return w * 0.5 + d * 0.5

    if excluded_first:

        def s_filter(s, d, _period):
            # period 0: state 0 has no admissible choice; afterwards everything is admissible
            return jnp.logical_or(s >= 1, _period >= 1)
    else:

        def s_filter(s, d, _period):
            # last period(s): state 2 has no admissible choice ... only used with transitions avoiding it
            return jnp.logical_or(s <= 1, _period < 1)

    model = Model(
        n_periods=T,
        functions=dict(utility=utility, next_s=next_s, next_w=next_w, s_filter=s_filter),
        choices=dict(d=dg(2)),
        states=dict(s=dg(3), w=lin(0, 2, 3)),
    )

    def params(mk):
        return {"beta": mk.real("beta"), "utility": {"U": mk.real("U", (3, 2)), "tw": mk.real("tw")}, "next_s": {}, "next_w": {}, "s_filter": {}}

    def init(mk, n):
        import jax.numpy as jnp

        return {"s": jnp.array([1, 2, 1, 2][:n]), "w": mk.real("w0", (n,))}

    return Tmpl(f"TP[T={T}]", model, params, lambda sy: [], init)


REGISTRY["TP"] = TP


# ----------------------------------------------------------------------------------
# TQ: a 3-valued filter-restricted choice; the number of admissible choices differs between states
# (health 0: three, health 1: one), so the rows of the state x choice product are unevenly distributed
# ----------------------------------------------------------------------------------
def TQ(T=2):
    import jax.numpy as jnp
    from lcm import Model

    def utility(health, hours, w, U, tw):
        return U[health, hours] + tw * w

    def next_health(health, hours):
        return jnp.where(hours == 2, 1, health)

    def next_w(w, hours):
        return w * 0.5 + hours * 0.25

    def h_filter(health, hours):
        return jnp.logical_or(health == 0, hours == 0)

    model = Model(
        n_periods=T,
        functions=dict(utility=utility, next_health=next_health, next_w=next_w, h_filter=h_filter),
        choices=dict(hours=dg(3)),
        states=dict(health=dg(2), w=lin(0, 2, 3)),
    )

    def params(mk):
        return {"beta": mk.real("beta"), "utility": {"U": mk.real("U", (2, 3)), "tw": mk.real("tw")}, "next_health": {}, "next_w": {}, "h_filter": {}}

    def init(mk, n):
        import jax.numpy as jnp

        return {"health": jnp.array([0, 1, 1, 0][:n]), "w": mk.real("w0", (n,))}

    return Tmpl(f"TQ[T={T}]", model, params, lambda sy: [], init)


REGISTRY["TQ"] = TQ


# ----------------------------------------------------------------------------------
# TR: TWO filters that disagree (one on state+choice, one on two choices): the admissible set is the
# conjunction of both
# ----------------------------------------------------------------------------------
def TR(T=2):
    import jax.numpy as jnp
    from lcm import Model

    def utility(lag, r, e, w, U, tw):
        return U[lag, r, e] + tw * w

    def next_lag(r):
        return r

    def next_w(w, e):
        return w * 0.5 + e * 0.25

    def a_filter(r, lag):
        return jnp.logical_or(r == 1, lag == 0)

    def b_filter(r, e):
        return r + e <= 1

    model = Model(
        n_periods=T,
        functions=dict(utility=utility, next_lag=next_lag, next_w=next_w, a_filter=a_filter, b_filter=b_filter),
        choices=dict(r=dg(2), e=dg(2)),
        states=dict(lag=dg(2), w=lin(0, 2, 3)),
    )

    def params(mk):
        return {"beta": mk.real("beta"), "utility": {"U": mk.real("U", (2, 2, 2)), "tw": mk.real("tw")}, "next_lag": {}, "next_w": {}, "a_filter": {}, "b_filter": {}}

    def init(mk, n):
        import jax.numpy as jnp

        return {"lag": jnp.arange(n) % 2, "w": mk.real("w0", (n,))}

    return Tmpl(f"TR[T={T}]", model, params, lambda sy: [], init)


REGISTRY["TR"] = TR
