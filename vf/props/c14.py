"""C14 - pre-computed values on a grid are represented as a faithful function."""
from __future__ import annotations

import itertools
from fractions import Fraction

import numpy as np
import z3

from .. import symjax as sj
from ..harness import Conc, HarnessError, close
from . import axioms
from .c15 import blend

META = {
    "explanation": "function_representation.get_function_representation(space_info, 'vf_arr', input_prefix='next_') is executed "
    "symbolically for spaces built by hand and by the real create_state_choice_space: the value array, the continuous inputs, "
    "the discrete labels (z3 Ints in range) and every entry of the feasibility indexer (z3 Int: -1 or a rank) are symbolic. Per "
    "label combination, rank and interpolation cell the solver decides that the result equals the multilinear blend of the "
    "entries vf_arr[indexer[labels], dense labels, corner nodes] (outermost cell continued), and the stored entry at nodes.",
    "bounds": "0-2 filter-restricted states (2-3 labels), 0-2 unrestricted discrete states (2-3 labels), 0-3 continuous states "
    "on linear grids with 2-3 (thorough: up to 5) points and dyadic bounds; one and two log-grid states with symbolic bounds "
    "0<start<stop and 3 (thorough 5) points, inputs inside the range; indexer entries arbitrary in [-1, rows-1]",
    "outside": "floating-point rounding; label values outside the grid; restricted-state combinations whose indexer entry is -1 "
    "(lcm then reads the last row - excluded by the property's precondition); log grids outside [start, stop]",
    "assumptions": ["labels are valid grid labels", "the selected indexer entry is a rank (>= 0)", "log grid: start <= value <= stop"],
    "stubs": ["exp/log: uninterpreted functions + instantiated axioms (log-grid units only)"],
}

SPACES = {
    # name: (sparse label counts, rows, dense label counts, continuous grids (start, stop, n))
    "1cont[3]": ((), None, (), ((1, 3, 3),)),
    "1cont[5]": ((), None, (), ((0, 4, 5),)),
    "1dense": ((), None, (3,), ()),
    "2dense+1cont": ((), None, (2, 3), ((0, 2, 3),)),
    "2cont[3x2]": ((), None, (), ((1, 3, 3), (0, 1, 2))),
    "1sparse": ((3,), 2, (), ()),
    "1sparse+1cont": ((3,), 2, (), ((1, 3, 3),)),
    "2sparse+1dense+1cont": ((2, 2), 3, (2,), ((1, 2, 2),)),
    "2sparse+2cont": ((2, 3), 4, (), ((1, 3, 3), (0, 1, 2))),
    "1sparse+2dense": ((2,), 2, (2, 2), ()),
    "3cont[2x2x2]": ((), None, (), ((0, 1, 2), (1, 2, 2), (0, 2, 2))),
    "1dense+3cont": ((), None, (2,), ((0, 1, 2), (1, 2, 2), (0, 2, 3))),
}
THOROUGH_SPACES = {
    "1cont[9]": ((), None, (), ((0, 8, 9),)),
    "2cont[5x3]": ((), None, (), ((0, 4, 5), (0, 2, 3))),
    "3cont[3x3x3]": ((), None, (), ((0, 2, 3), (1, 3, 3), (0, 1, 3))),
    "2sparse+2dense+2cont": ((3, 2), 5, (2, 3), ((1, 3, 3), (0, 1, 2))),
}
SPACES_ALL = {**SPACES, **THOROUGH_SPACES}


def units(tier):
    names = list(SPACES) + (list(THOROUGH_SPACES) if tier == "thorough" else [])
    out = [(f"handbuilt[{n}]", "u_hand", {"name": n}) for n in names]
    # interpolation_info listed in another order than the array axes
    out += [(f"handbuilt[{n}, interpolation_info reversed]", "u_hand", {"name": n, "rev": True}) for n in ("2cont[3x2]", "2sparse+2cont", "1dense+3cont")]
    out += [(f"real_space[{n}]", "u_real", {"name": n}) for n in REAL_MODELS]
    out += [("loggrid[1 log state + 1 dense, n=3]", "u_log", {"n": 3})]
    if tier == "thorough":
        out += [("loggrid[1 log state + 1 dense, n=5]", "u_log", {"n": 5})]
    return out


def dg(n):
    from dataclasses import make_dataclass

    from lcm import DiscreteGrid

    return DiscreteGrid(make_dataclass(f"L{n}", [(f"c{i}", int, i) for i in range(n)]))


def build_space(spec, rev=False):
    from lcm import LinspaceGrid
    from lcm.interfaces import IndexerInfo, SpaceInfo

    sparse, rows, dense, conts = spec
    sn = [f"s{i}" for i in range(len(sparse))]
    dn = [f"d{i}" for i in range(len(dense))]
    cn = [f"x{i}" for i in range(len(conts))]
    grids = {n: LinspaceGrid(start=a, stop=b, n_points=k) for n, (a, b, k) in zip(cn, conts)}
    info = SpaceInfo(
        axis_names=(["state_index"] if sparse else []) + dn + cn,
        lookup_info={n: dg(k) for n, k in zip(sn + dn, sparse + dense)},
        interpolation_info=dict(reversed(list(grids.items()))) if rev else grids,  # dict order need not be the axis order
        indexer_infos=[IndexerInfo(axis_names=sn, name="state_indexer", out_name="state_index")] if sparse else [],
    )
    return info, sn, dn, cn, grids


def exact_nodes(grid):
    nodes = [Fraction(float(v)) for v in np.asarray(grid.to_jax())]
    ideal = [Fraction(grid.start) + Fraction(i, max(grid.n_points - 1, 1)) * (Fraction(grid.stop) - Fraction(grid.start)) for i in range(grid.n_points)]
    if nodes != ideal:
        raise HarnessError(f"harness grid {grid} is not exactly representable: {nodes} vs {ideal}")
    return nodes


def check_representation(rec, S, info, sn, dn, cn, grids, sizes, vshape, indexer, tag=""):
    """run the real representation on symbolic inputs and discharge the blend obligations.
    indexer: None, an object array of z3 Ints (symbolic) or a concrete int array"""
    from lcm.function_representation import get_function_representation

    f = get_function_representation(info, "vf_arr", input_prefix="next_")
    Vv = S.real("V", vshape)
    labels = {n: S.int("l_" + n) for n in sn + dn}
    xs = {n: S.real("v_" + n) for n in cn}
    kwargs = {"next_" + n: labels[n] for n in sn + dn} | {"next_" + n: xs[n] for n in cn} | {"vf_arr": Vv}
    nrows = vshape[0] if sn else None
    if sn:
        if indexer is None:
            idx_t = S.int("ix", tuple(sizes[n] for n in sn))
        else:
            import jax.numpy as jnp

            idx_t = jnp.asarray(indexer)
        kwargs["state_indexer"] = idx_t
    out = S.run(f, **kwargs)
    impl = sj.z(sj.scalar(out))
    rec.symbols = S.symbols
    sy = S.symbols
    Vt = sj.terms(Vv)
    nodes = {n: exact_nodes(grids[n]) for n in cn}

    def concrete(vals):
        import jax.numpy as jnp

        C = Conc(vals)
        kw = {"next_" + n: C.int("l_" + n) for n in sn + dn} | {"next_" + n: C.real("v_" + n) for n in cn} | {"vf_arr": C.real("V", vshape)}
        if sn:
            kw["state_indexer"] = C.int("ix", tuple(sizes[n] for n in sn)) if indexer is None else jnp.asarray(indexer)
        return float(np.asarray(f(**kw)))

    def expected(vals):
        import math

        lab = {n: int(vals["l_" + n]) for n in sn + dn}
        pre = []
        if sn:
            key = "_".join(str(lab[n]) for n in sn)
            r = int(vals["ix_" + key]) if indexer is None else int(np.asarray(indexer)[tuple(lab[n] for n in sn)])
            pre.append(r)
        pre += [lab[n] for n in dn]
        if not cn:
            return Fraction(vals["V_" + "_".join(map(str, pre))])
        cell, ts = [], []
        for n in cn:
            g = grids[n]
            x = Fraction(vals["v_" + n])
            step = nodes[n][1] - nodes[n][0]
            k = min(max(math.floor((x - nodes[n][0]) / step), 0), g.n_points - 2)
            cell.append(k)
            ts.append((x - nodes[n][k]) / step)
        acc = Fraction(0)
        for corner in itertools.product((0, 1), repeat=len(cn)):
            w = Fraction(1)
            for t, c in zip(ts, corner):
                w *= t if c else 1 - t
            acc += w * Fraction(vals["V_" + "_".join(map(str, pre + [k + c for k, c in zip(cell, corner)]))])
        return acc

    def replay(vals):
        lab = {n: int(vals["l_" + n]) for n in sn + dn}
        if any(not 0 <= lab[n] < sizes[n] for n in lab):
            return None
        obs = concrete(vals)
        exp = expected(vals)
        if close(obs, exp):
            return None
        return {"what": "function representation differs from indexer/label lookup + multilinear blend", "observed": obs, "expected": exp}

    base = [z3.And(sy["l_" + n] >= 0, sy["l_" + n] < sizes[n]) for n in sn + dn]
    if sn and indexer is None:
        base += [z3.And(s >= -1, s < nrows) for k, s in sy.items() if k.startswith("ix_")]
    rec.validate("representation" + tag, [impl], lambda v: [concrete(v)], S.symbols, base + ([] if not sn or indexer is not None else [s >= 0 for k, s in sy.items() if k.startswith("ix_")]))

    for scombo in itertools.product(*[range(sizes[n]) for n in sn]):
        if sn and indexer is not None:
            r_conc = int(np.asarray(indexer)[scombo])
            if r_conc < 0:
                continue  # infeasible combination: outside the property's precondition
            ranks = [r_conc]
        else:
            ranks = list(range(nrows)) if sn else [None]
        for r in ranks:
            for dcombo in itertools.product(*[range(sizes[n]) for n in dn]):
                pre = list(base)
                pre += [sy["l_" + n] == v for n, v in zip(sn, scombo)]
                pre += [sy["l_" + n] == v for n, v in zip(dn, dcombo)]
                if sn and indexer is None:
                    pre.append(sy["ix_" + "_".join(map(str, scombo))] == r)
                lead = (() if r is None else (r,)) + tuple(dcombo)
                sub = Vt[lead] if lead else Vt
                if not cn:
                    rec.prove(f"lookup{tag}[{scombo},{r},{dcombo}]", impl == sj.z(sub if not isinstance(sub, np.ndarray) else sub[()]), pre, replay=replay)
                    continue
                cshape = tuple(grids[n].n_points for n in cn)
                # coordinates in index units
                us = [(sy["v_" + n] - sj.z(nodes[n][0])) / sj.z(nodes[n][1] - nodes[n][0]) for n in cn]
                for cell in itertools.product(*[range(k - 1) for k in cshape]):
                    cpre = list(pre)
                    for d, (n, k) in enumerate(zip(cn, cell)):
                        if k > 0:
                            cpre.append(sy["v_" + n] >= sj.z(nodes[n][k]))
                        if k < cshape[d] - 2:
                            cpre.append(sy["v_" + n] < sj.z(nodes[n][k + 1]))
                    rec.prove(f"blend{tag}[{scombo},{r},{dcombo},cell={cell}]", impl == blend(sub, us, cell), cpre, replay=replay)
                for node in itertools.product(*[range(k) for k in cshape]):
                    npre = pre + [sy["v_" + n] == sj.z(nodes[n][i]) for n, i in zip(cn, node)]
                    rec.prove(f"node{tag}[{scombo},{r},{dcombo},{node}]", impl == sj.z(sub[node]), npre, replay=replay)


def u_hand(rec, name, rev=False):
    spec = SPACES_ALL[name]
    info, sn, dn, cn, grids = build_space(spec, rev)
    sparse, rows, dense, conts = spec
    sizes = dict(zip(sn + dn, sparse + dense))
    vshape = ((rows,) if sparse else ()) + tuple(dense) + tuple(k for (_, _, k) in conts)
    S = sj.Session()
    check_representation(rec, S, info, sn, dn, cn, grids, sizes, vshape, None)
    rec.primitives = S.trace.stats
    return {"bounds": {"space": name, "vf_arr_shape": list(vshape)}, "symbols": len(S.symbols)}


# ----------------------------------------------------------------------------------
# spaces built by the real create_state_choice_space
# ----------------------------------------------------------------------------------
def _real_models():
    import jax.numpy as jnp
    from lcm import LinspaceGrid, Model

    W = LinspaceGrid(start=1, stop=3, n_points=3)
    K = LinspaceGrid(start=0, stop=1, n_points=2)
    out = {}
    out["absorbing filter: sparse s(2), dense h(3), cont w"] = Model(
        n_periods=2,
        functions=dict(
            utility=lambda s, d, h, w: s + d + h + w,
            next_s=lambda d: d,
            next_h=lambda h: h,
            next_w=lambda w: w,
            abs_filter=lambda s, d: jnp.logical_or(d == 1, s == 0),
        ),
        choices=dict(d=dg(2)),
        states=dict(w=W, h=dg(3), s=dg(2)),
    )
    out["states-only filter s<=t, two cont"] = Model(
        n_periods=2,
        functions=dict(utility=lambda s, t, d, w, k: s + t + d + w + k, next_s=lambda s: s, next_t=lambda t: t, next_w=lambda w: w, next_k=lambda k: k, st_filter=lambda s, t: s <= t),
        choices=dict(d=dg(2)),
        states=dict(k=K, s=dg(2), w=W, t=dg(3)),
    )
    out["no filter: dense h(2), g(3), cont w"] = Model(
        n_periods=2,
        functions=dict(utility=lambda h, g, w, c: h + g + w + c, next_h=lambda h: h, next_g=lambda g: g, next_w=lambda w: w),
        choices=dict(c=K),
        states=dict(g=dg(3), w=W, h=dg(2)),
    )
    return out


REAL_MODELS = ["absorbing filter: sparse s(2), dense h(3), cont w", "states-only filter s<=t, two cont", "no filter: dense h(2), g(3), cont w"]


def u_real(rec, name):
    from lcm.input_processing import process_model
    from lcm.state_space import create_state_choice_space

    model = _real_models()[name]
    im = process_model(model)
    prims = {}
    for period, is_last in ((0, False), (1, True)):
        space, info, indexers, _seg = create_state_choice_space(im, period=period, is_last_period=is_last, jit_filter=False)
        vi = im.variable_info
        sn = info.indexer_infos[0].axis_names if info.indexer_infos else []
        dn = [a for a in info.axis_names if a != "state_index" and a not in info.interpolation_info]
        cn = [a for a in info.axis_names if a in info.interpolation_info]
        sizes = {n: len(im.grids[n]) for n in sn + dn}
        grids = dict(info.interpolation_info)
        indexer = np.asarray(indexers["state_indexer"]) if sn else None
        nrows = int(indexer.max()) + 1 if sn else None
        vshape = ((nrows,) if sn else ()) + tuple(sizes[n] for n in dn) + tuple(grids[n].n_points for n in cn)
        for sym_indexer in ((False, True) if sn else (False,)):
            S = sj.Session()
            check_representation(rec, S, info, list(sn), dn, cn, grids, sizes, vshape, None if sym_indexer else indexer, tag=f"[period={period},symbolic_indexer={sym_indexer}]")
            for k, v in S.trace.stats.items():
                prims[k] = prims.get(k, 0) + v
    rec.primitives = prims
    return {"bounds": {"model": name}}


# ----------------------------------------------------------------------------------
# log grid with symbolic bounds (exp/log axiomatised)
# ----------------------------------------------------------------------------------
def u_log(rec, n):
    from lcm import LogspaceGrid
    from lcm.function_representation import get_function_representation
    from lcm.interfaces import SpaceInfo

    S = sj.Session()
    start_t, stop_t = S.real("start"), S.real("stop")
    g = object.__new__(LogspaceGrid)  # bypass the validator: bounds are symbolic here (0 < start < stop assumed)
    object.__setattr__(g, "start", start_t)
    object.__setattr__(g, "stop", stop_t)
    object.__setattr__(g, "n_points", n)
    info = SpaceInfo(axis_names=["d0", "x0"], lookup_info={"d0": dg(2)}, interpolation_info={"x0": g}, indexer_infos=[])
    f = get_function_representation(info, "vf_arr", input_prefix="next_")
    Vv = S.real("V", (2, n))
    lab = S.int("l_d0")
    x = S.real("v_x0")
    sj.SIDE.clear()
    out = S.run(f, next_d0=lab, next_x0=x, vf_arr=Vv)
    impl = sj.z(sj.scalar(out))
    rec.symbols = S.symbols
    rec.primitives = S.trace.stats
    sy = S.symbols
    start, stop, xv = sy["start"], sy["stop"], sy["v_x0"]
    EXP, LOG = sj.UF["exp"], sj.UF["log"]
    ls, lt = LOG(start), LOG(stop)
    step = (lt - ls) / (n - 1)
    Vt = sj.terms(Vv)
    pre = [start > 0, start < stop, xv >= start, xv <= stop]

    def concrete(vals):
        import jax.numpy as jnp

        gg = LogspaceGrid(start=float(vals["start"]), stop=float(vals["stop"]), n_points=n)
        info2 = SpaceInfo(axis_names=["d0", "x0"], lookup_info={"d0": dg(2)}, interpolation_info={"x0": gg}, indexer_infos=[])
        f2 = get_function_representation(info2, "vf_arr", input_prefix="next_")
        C = Conc(vals)
        return float(np.asarray(f2(next_d0=C.int("l_d0"), next_x0=C.real("v_x0"), vf_arr=C.real("V", (2, n)))))

    def replay(vals):
        import math

        try:
            a, b, xx = float(vals["start"]), float(vals["stop"]), float(vals["v_x0"])
            l = int(vals["l_d0"])
            if not (0 < a < b and a <= xx <= b and 0 <= l < 2):
                return None
            obs = concrete(vals)
            la, lb = math.log(a), math.log(b)
            st = (lb - la) / (n - 1)
            k = min(max(math.floor((math.log(xx) - la) / st), 0), n - 2)
            lo, hi = math.exp(la + k * st), math.exp(la + (k + 1) * st)
            t = (xx - lo) / (hi - lo)
            exp = (1 - t) * float(vals[f"V_{l}_{k}"]) + t * float(vals[f"V_{l}_{k+1}"])
        except (ValueError, ZeroDivisionError, OverflowError):
            return None
        if close(obs, exp, rel=1e-6):
            return None
        return {"what": "log-grid representation differs from linear blend between the neighbouring nodes", "observed": obs, "expected": exp}

    for l in range(2):
        for k in range(n - 1):
            lo, hi = EXP(ls + k * step), EXP(ls + (k + 1) * step)
            cell = [xv >= lo, xv < hi] if k < n - 2 else [xv >= lo, xv <= hi]
            ax = axioms.explog_axioms([impl, lo, hi, ls, lt], start=start, stop=stop)
            t = (xv - lo) / (hi - lo)
            spec = (1 - t) * sj.z(Vt[l, k]) + t * sj.z(Vt[l, k + 1])
            rec.prove(f"log-blend[label={l},cell={k}]", impl == spec, pre + ax + cell + [sy["l_d0"] == l], replay=replay)
        for i in range(n):
            node = EXP(ls + i * step)
            ax = axioms.explog_axioms([impl, node, ls, lt], start=start, stop=stop)
            rec.prove(f"log-node[label={l},{i}]", impl == sj.z(Vt[l, i]), pre + ax + [xv == node, sy["l_d0"] == l], replay=replay)
    return {"bounds": {"n_points": n, "start/stop": "symbolic, 0<start<stop"}, "symbols": len(S.symbols)}
