"""C09 - generated functions are pure: results depend only on the arguments of the call."""
from __future__ import annotations

import hashlib
import json
import os
import subprocess
import sys

import numpy as np
import z3

from .. import symjax as sj
from ..harness import Conc, HarnessError, close, jsonable, unjson
from ..refsem import Ref
from ..templates import build
from .pipeline import conc_vf, default_values, frame_terms, get_function, sym_vf

META = {
    "explanation": "In a fresh interpreter per PYTHONHASHSEED value: ONE generated solve function object (jit on: JAX's real jaxpr cache "
    "is reused between the calls) is executed symbolically on params p1, then on other symbolic params p2, then called for real "
    "(XLA-compiled) on concrete params given as python floats, numpy scalars and jax arrays, then again symbolically on p1; decided "
    "by z3 per entry: third result == first result, second result == backward-induction reference for p2 (so nothing of the p1 "
    "call leaks), the concrete results equal the symbolic terms evaluated at those params. The same for ONE simulate function "
    "object (different initial states and seeds in between). The functions are built a second time from the same model and compared "
    "entry by entry with the first build. model.functions (keys and function objects) and the params containers and leaves are "
    "compared before/after (identity). The parent process compares the per-hash-seed results with each other (term digest of V(p1) "
    "and the float results on fixed params). Supplementary concrete check at scale (not solver-based): the "
    "frame of a 640-agent batch B is compared between the histories [simulate(A); simulate(B)] and [simulate(B)] run in different processes.",
    "bounds": "in-place history (one dict object updated between two calls; solve and solve_and_simulate, 1 agent): TA, TB (thorough +TE, TC); "
    "templates TA, TC, TE (stochastic), TK; T = 2; PYTHONHASHSEED in {0,1,2} (thorough: 0..7 and two random seeds); call "
    "sequences of length 4 on one function object",
    "outside": "hash seeds and processes other than the enumerated ones; longer call histories; other threads",
    "assumptions": ["as C01/C02"],
    "stubs": [],
}

SPECS = [("TA", dict(T=2)), ("TC", dict(T=2, nw=3, nc=2)), ("TE", dict(T=2)), ("TK", dict(T=2))]


def units(tier):
    seeds = ["0", "1", "2"] if tier == "quick" else ["0", "1", "2", "3", "4", "5", "6", "7", "random", "random"]
    from .c01 import spec_name

    out = [(f"pure:{spec_name(s)}|hashseeds={','.join(seeds)}", "u_hashseeds", {"spec": s, "seeds": seeds}) for s in SPECS]
    for s in INPLACE_SPECS if tier == "quick" else INPLACE_SPECS + INPLACE_THOROUGH:
        out.append((f"in-place updated params:{spec_name(s)}", "u_inplace", {"spec": s}))
    return out


INPLACE_SPECS = [("TA", dict(T=2, nw=3, nc=2)), ("TB", dict(T=2))]
INPLACE_THOROUGH = [("TE", dict(T=2)), ("TC", dict(T=2, nw=3, nc=2))]


def u_inplace(rec, spec):
    """one params dict OBJECT, updated in place between the calls (the estimation-loop idiom
    `params["beta"] = b; f(params)`): for each target the call after the update must equal the
    result of a freshly built function called with a fresh dict holding the new values."""
    tm = build(tuple(spec))
    model = tm.model
    S = sj.Session()
    sj.SIDE.clear()
    sj.TAGGING[0] = False
    sj.AMBIENT[:] = []
    T = model.n_periods

    class Suffix:
        def __init__(self, S, suf):
            self.S, self.suf = S, suf

        def real(self, name, shape=()):
            return self.S.real(name + self.suf, shape)

        def int(self, name, shape=()):
            return self.S.int(name + self.suf, shape)

    def update_in_place(dst, src):
        for k, v in src.items():
            if isinstance(v, dict):
                update_in_place(dst[k], v)
            else:
                dst[k] = v

    def copy_tree(p):
        return {k: copy_tree(v) if isinstance(v, dict) else v for k, v in p.items()}

    p1 = tm.params(S)
    p2 = tm.params(Suffix(S, "__2"))
    rec.symbols = S.symbols
    sy1 = {k: v for k, v in S.symbols.items() if not k.endswith("__2")}
    sy2 = {k[:-3]: v for k, v in S.symbols.items() if k.endswith("__2")}
    assume = tm.assume(sy1) + tm.assume(sy2)
    init = tm.init(S, 1)
    assume = tm.assume({k: v for k, v in S.symbols.items() if not k.endswith("__2")}) + tm.assume(sy2)
    stoch = bool(Ref(model, p1, S).stoch)
    kw = {"seed": 5} if stoch else {}

    # ---- solve ------------------------------------------------------------------------------
    solve, _ = get_function(model, "solve", True)
    pm = copy_tree(p1)
    S.run(solve, pm)
    update_in_place(pm, p2)
    got = [sj.terms(v) for v in S.run(solve, pm)]
    fresh = [sj.terms(v) for v in S.run(get_function(model, "solve", True)[0], copy_tree(p2))]

    def conc_hist(target, vals, mutate):
        va = {k: v for k, v in vals.items() if not k.endswith("__2")}
        vb = {**va, **{k[:-3]: v for k, v in vals.items() if k.endswith("__2")}}
        f = get_function(model, target, True)[0]
        Ca, Cb = Conc(va), Conc(vb)
        extra = {} if target == "solve" else {"initial_states": tm.init(Ca, 1), **kw}
        if not mutate:
            return f(tm.params(Cb), **extra)
        pm = tm.params(Ca)
        f(pm, **extra)
        update_in_place(pm, tm.params(Cb))
        return f(pm, **extra)

    def replay_solve(vals):
        a, b = conc_hist("solve", vals, True), conc_hist("solve", vals, False)
        for t in range(T):
            if not np.allclose(np.asarray(a[t]), np.asarray(b[t]), rtol=1e-12, atol=0, equal_nan=True):
                return {"what": "solve(params) after updating the same params dict in place differs from a fresh function on the new values", "observed": np.asarray(a[t]).reshape(-1)[:6].tolist(), "expected": np.asarray(b[t]).reshape(-1)[:6].tolist()}
        return None

    for t in range(T):
        for i, (a, b) in enumerate(zip(got[t].reshape(-1), fresh[t].reshape(-1))):
            rec.prove(f"solve: f(p); update p in place; f(p) == fresh f(new values) [V{t}#{i}]", sj.x_eq(a, b), assume, replay=replay_solve)

    # ---- solve_and_simulate -----------------------------------------------------------------
    sas, _ = get_function(model, "solve_and_simulate", True)

    def run(f, params):
        sj.OOB[0] = 10**6
        return S.run_paths(lambda: f(params, initial_states=init, **kw), base=assume, cap=64)

    pm = copy_tree(p1)
    first = run(sas, pm)
    update_in_place(pm, p2)
    second = run(sas, pm)
    ref = run(get_function(model, "solve_and_simulate", True)[0], copy_tree(p2))
    rec.paths += len(first) + len(second) + len(ref)
    rec.primitives = S.trace.stats

    def replay_sas(vals):
        a, b = conc_hist("solve_and_simulate", vals, True), conc_hist("solve_and_simulate", vals, False)
        if a.equals(b) or np.allclose(a.to_numpy(dtype=float), b.to_numpy(dtype=float), rtol=1e-9, atol=0, equal_nan=True):
            return None
        return {"what": "solve_and_simulate(params) after updating the same params dict in place differs from a fresh function on the new values", "observed": a.to_dict(), "expected": b.to_dict()}

    # every path of the call after the update is matched with the paths of the fresh call: under the
    # conjunction of both path conditions (if satisfiable) the frames agree entry by entry
    import itertools

    n_pairs = 0
    for (k, (pca, dfa)), (l, (pcb, dfb)) in itertools.product(enumerate(second), enumerate(ref)):
        both = assume + list(pca) + list(pcb)
        r, _m = rec._check(both)
        if r == "unsat":
            continue  # the two paths do not overlap
        if r != "sat":
            rec.inconclusive(f"solve_and_simulate: overlap of paths {k},{l}", "solver could not decide whether the path conditions overlap")
            continue
        ca, _ = frame_terms(dfa)
        cb, _ = frame_terms(dfb)
        claims = [sj.x_eq(x, y) for col in ca for x, y in zip(ca[col], cb[col])]
        claims = [c for c in claims if c is not True]
        if not claims:
            continue
        n_pairs += 1
        rec.prove(f"solve_and_simulate: f(p); update p in place; f(p) == fresh f(new values) [paths {k},{l}]", z3.And(*[sj.z(c) if not isinstance(c, bool) else z3.BoolVal(c) for c in claims]), both, replay=replay_sas)
    return {"bounds": {"template": tm.name, "agents": 1, "paths": [len(first), len(second), len(ref)], "path_pairs": n_pairs}}


def u_hashseeds(rec, spec, seeds):
    """spawn one interpreter per hash seed, merge their obligations, compare them with each other"""
    procs = []
    for k, hs in enumerate(seeds):
        env = dict(os.environ)
        env["PYTHONHASHSEED"] = hs
        env["PYTHONPATH"] = "/verif:" + env.get("PYTHONPATH", "")
        # supplementary concrete history check at scale: children alternate between the histories
        # [simulate(A); simulate(B)] and [simulate(B)] on batches of 640 agents (B = A with two agents in
        # the middle swapped); the parent compares the frames of B across processes
        sub = {"module": "vf.props.c09", "func": "u_pure", "prop": "C09", "unit": f"{rec.unit}/seed{k}={hs}", "kwargs": {"spec": spec, "history": "AB" if k % 2 == 0 else "B"}}
        if rec.replay_target is not None:
            sub["replay"] = {"obligation": rec.replay_target[0].split("::", 1)[-1], "inputs": jsonable(rec.replay_target[1])}
        procs.append((hs, k, subprocess.Popen([sys.executable, "-m", "vf.subunit", json.dumps(sub)], stdout=subprocess.PIPE, stderr=subprocess.PIPE, text=True, env=env, cwd="/verif")))
    results = []
    for hs, k, p in procs:
        out, err = p.communicate(timeout=3000)
        if "@@SUBUNIT@@" not in out:
            rec.errors.append(f"child for PYTHONHASHSEED={hs} failed: {err[-600:]}")
            continue
        st = unjson(json.loads(out.split("@@SUBUNIT@@")[-1]))
        results.append((hs, k, st))
        if rec.replay_target is not None:
            if st.get("replay_outcome"):
                rec.replay_outcome = st["replay_outcome"]
            continue
        for o in st["obligations"]:
            o = dict(o)
            o["name"] = f"seed{k}={hs}::" + o["name"]
            o["unit"] = rec.unit
            rec.obligations.append(o)
        for v in st["violations"]:
            v = dict(v)
            v["obligation"] = f"seed{k}={hs}::" + v["obligation"]
            v["unit"] = rec.unit
            v["key"] = f"{rec.unit}/{v['obligation']}"
            rec.violations.append(v)
        rec.errors += st["errors"]
        rec.queries += st["queries"]
        rec.solver_time += st["solver_time"]
        rec.tv_points += st["tv_points"]
        rec.paths += st["paths"]
        rec.functions |= set(st["functions"])
        rec.primitives = st["primitives"]
        for kk, vv in st["twins"].items():
            rec.twins[f"{k}:{kk}"] = tuple(vv)
    if rec.replay_target is not None:
        return {}
    # cross-process comparison
    base = results[0][2]["extra"] if results and results[0][2].get("extra") else None
    for hs, k, st in results[1:]:
        ex = st.get("extra")
        if not base or not ex:
            continue
        same_num = len(base["float_results"]) == len(ex["float_results"]) and all(close(a, b, rel=1e-12) for a, b in zip(base["float_results"], ex["float_results"]))
        name = f"results under PYTHONHASHSEED={hs} == under {results[0][0]}"
        if same_num:
            rec.obligations.append({"name": name, "unit": rec.unit, "verdict": "const", "info": {"term_digest_equal": base["digest"] == ex["digest"]}})
        else:
            rec.violation(name, {"what": "results differ between processes with different hash seeds", "observed": ex["float_results"][:8], "expected": base["float_results"][:8], "inputs": {}})
        lb, le = base.get("large_B"), ex.get("large_B")
        if lb is not None and le is not None:
            name2 = f"640-agent batch B: frame after history {ex.get('history')} (seed {hs}) == after history {base.get('history')} (seed {results[0][0]})"
            bad = [i for i, (a, b) in enumerate(zip(lb, le)) if not close(a, b, rel=1e-12)]
            if len(lb) == len(le) and not bad:
                rec.obligations.append({"name": name2, "unit": rec.unit, "verdict": "const"})
            else:
                rec.violation(name2, {"what": "the frame of a simulate call depends on the calls made before it (history [A,B] vs [B], 640 agents)", "observed": [le[i] for i in bad[:6]], "expected": [lb[i] for i in bad[:6]], "rows": bad[:6], "inputs": {}})
    return {"bounds": {"hash_seeds": seeds, "processes": len(results)}}


def u_pure(rec, spec, history="AB"):
    tm = build(tuple(spec))
    model = tm.model
    funcs_before = dict(model.functions)
    S = sj.Session()
    sj.SIDE.clear()
    sj.TAGGING[0] = False
    sj.AMBIENT[:] = []
    T = model.n_periods

    class Suffix:
        """same factory, symbols renamed (second, different parameter set)"""

        def __init__(self, S, suf):
            self.S, self.suf = S, suf

        def real(self, name, shape=()):
            return self.S.real(name + self.suf, shape)

        def int(self, name, shape=()):
            return self.S.int(name + self.suf, shape)

    p1 = tm.params(S)
    p2 = tm.params(Suffix(S, "__2"))
    rec.symbols = S.symbols
    assume = tm.assume({k: v for k, v in S.symbols.items() if not k.endswith("__2")}) + tm.assume({k[:-3]: v for k, v in S.symbols.items() if k.endswith("__2")})
    solve, _ = get_function(model, "solve", True)
    dv = default_values(tm)

    def conc_params(kind):
        import jax.numpy as jnp

        C = Conc(dv)
        p = tm.params(C)

        def conv(x):
            if isinstance(x, dict):
                return {k: conv(v) for k, v in x.items()}
            a = np.asarray(x)
            if a.ndim == 0:
                return float(a) if kind == "python" else (np.float64(a) if kind == "numpy" else jnp.asarray(a))
            return np.array(a) if kind == "numpy" else jnp.asarray(a)

        return conv(p)

    def leaves(p, path=()):
        if isinstance(p, dict):
            for k, v in p.items():
                yield from leaves(v, path + (k,))
        else:
            yield path, p

    snap1 = [(pa, id(v)) for pa, v in leaves(p1)]
    r1 = [sj.terms(v) for v in S.run(solve, p1)]
    r2 = [sj.terms(v) for v in S.run(solve, p2)]
    conc_results = {}
    for kind in ("python", "numpy", "jax"):
        cp = conc_params(kind)
        snapc = [(pa, id(v), (float(np.asarray(v).reshape(-1)[0]) if np.asarray(v).size else None)) for pa, v in leaves(cp)]
        conc_results[kind] = [np.asarray(v) for v in solve(cp)]
        after = [(pa, id(v), (float(np.asarray(v).reshape(-1)[0]) if np.asarray(v).size else None)) for pa, v in leaves(cp)]
        ok = snapc == after
        if ok:
            rec.obligations.append({"name": f"params[{kind}] not modified by solve", "unit": rec.unit, "verdict": "const"})
        else:
            rec.violation(f"params[{kind}] not modified by solve", {"what": "the params passed in were modified", "observed": str(after)[:300], "expected": str(snapc)[:300], "inputs": {}})
    r3 = [sj.terms(v) for v in S.run(solve, p1)]
    solve_b, _ = get_function(model, "solve", True)
    r4 = [sj.terms(v) for v in S.run(solve_b, p1)]
    rec.primitives = S.trace.stats

    def conc_seq(vals):
        """the same history for real: f(a); f(b); f(a) on one function object + a rebuilt function"""
        va = {k: v for k, v in vals.items() if not k.endswith("__2")}
        vb = {k[:-3]: v for k, v in vals.items() if k.endswith("__2")}
        a1 = [np.asarray(v) for v in solve(tm.params(Conc(va)))]
        b = [np.asarray(v) for v in solve(tm.params(Conc(vb)))]
        a2 = [np.asarray(v) for v in solve(tm.params(Conc(va)))]
        a3 = [np.asarray(v) for v in get_function(model, "solve", True)[0](tm.params(Conc(va)))]
        return a1, b, a2, a3

    def replay(vals):
        a1, b, a2, a3 = conc_seq(vals)
        for t in range(T):
            if not np.allclose(a1[t], a2[t], rtol=1e-12, atol=0, equal_nan=True):
                return {"what": "repeating a call after a call with other params gives another result", "observed": a2[t].reshape(-1)[:6].tolist(), "expected": a1[t].reshape(-1)[:6].tolist()}
            if not np.allclose(a1[t], a3[t], rtol=1e-12, atol=0, equal_nan=True):
                return {"what": "a rebuilt function gives another result", "observed": a3[t].reshape(-1)[:6].tolist(), "expected": a1[t].reshape(-1)[:6].tolist()}
        vb = {k[:-3]: v for k, v in vals.items() if k.endswith("__2")}
        subs = {S.symbols[k + "__2"]: v for k, v in vb.items()}
        for t in range(T):
            for i, (o, term) in enumerate(zip(b[t].reshape(-1), r2_ref_flat[t])):
                e = sj.evaluate(term, subs)
                if not close(o, e):
                    return {"what": "the call with the second params does not give the backward-induction result for those params", "observed": float(o), "expected": float(e)}
        return None

    ref2 = Ref(model, p2, S)
    V2 = ref2.solve()
    r2_ref_flat = []
    for t in range(T):
        shape, index = ref2.layout(t)
        flat = [None] * int(np.prod(shape)) if shape else [None]
        arr = np.empty(shape, dtype=object)
        for sidx, byname in ref2.states_in_space(t):
            arr[index(byname)] = V2[t][sidx]
        r2_ref_flat.append(list(arr.reshape(-1)))
    for t in range(T):
        for i, (a, c, d) in enumerate(zip(r1[t].reshape(-1), r3[t].reshape(-1), r4[t].reshape(-1))):
            rec.prove(f"f(p1);f(p2);f(p1): third==first [V{t}#{i}]", sj.x_eq(a, c), assume, replay=replay)
            rec.prove(f"rebuilt function == first build [V{t}#{i}]", sj.x_eq(a, d), assume, replay=replay)
        for i, (b, e) in enumerate(zip(r2[t].reshape(-1), r2_ref_flat[t])):
            rec.prove(f"f(p2) after f(p1) == bellman(p2) [V{t}#{i}]", sj.x_eq(b, e), assume, replay=replay)
    # concrete interleaved calls agree with the symbolic terms at those params, for every leaf type
    subs = {S.symbols[k]: v for k, v in dv.items() if k in S.symbols}
    floats = []
    for kind, res in conc_results.items():
        for t in range(T):
            for i, (o, term) in enumerate(zip(res[t].reshape(-1), r1[t].reshape(-1))):
                e = sj.evaluate(term, subs)
                rec.tv_points += 1
                if not close(o, e, rel=1e-9):
                    rec.violation(f"concrete call [{kind}] V{t}#{i}", {"what": f"real call with {kind} leaves differs from the symbolic result", "observed": float(o), "expected": float(e), "inputs": {}})
                if kind == "python":
                    floats.append(float(o))
    # the model and the symbolic params are untouched
    same_funcs = list(model.functions) == list(funcs_before) and all(model.functions[k] is funcs_before[k] for k in funcs_before)
    same_p1 = [(pa, id(v)) for pa, v in leaves(p1)] == snap1
    for name, ok in (("model.functions unchanged (keys, identity)", same_funcs), ("params containers/leaves unchanged (identity)", same_p1)):
        if ok:
            rec.obligations.append({"name": name, "unit": rec.unit, "verdict": "const"})
        else:
            rec.violation(name, {"what": name + " - violated", "observed": "changed", "expected": "unchanged", "inputs": {}})

    # ---- simulate: one function object, interleaved calls -----------------------------------------
    sim, _ = get_function(model, "simulate", True)
    ref1 = Ref(model, p1, S)
    vf = sym_vf(S, ref1, T)
    init = tm.init(S, 2)
    stoch = bool(ref1.stoch)
    kw = {"seed": 3} if stoch else {}

    def sym_sim(params, vfl, ini, **k):
        return S.run_paths(lambda: sim(params, initial_states=ini, vf_arr_list=vfl, **k), base=assume, cap=32)

    sj.OOB[0] = 10**6
    snap_sim = [(pa, id(v)) for pa, v in leaves(p1)]
    snap_init = [(k, id(v)) for k, v in init.items()]
    A = sym_sim(p1, vf, init, **kw)
    vf2 = sym_vf(S, ref1, T, prefix="Vb")
    init2 = tm.init(Suffix(S, "__2"), 2)
    sym_sim(p2, vf2, init2, **({"seed": 99} if stoch else {}))
    C = Conc({**dv, **{k: 1.0 for k in S.symbols if k not in dv}})
    cpar, cini, cvf = conc_params("python"), tm.init(C, 2), conc_vf(C, ref1, T)
    snapc = ([(pa, id(v), float(np.asarray(v).reshape(-1)[0]) if np.asarray(v).size else None) for pa, v in leaves(cpar)], [(k, id(v)) for k, v in cini.items()], [id(v) for v in cvf], len(cvf))
    frame_c = sim(cpar, initial_states=cini, vf_arr_list=cvf, **kw)
    floats += [float(x) for c in frame_c.columns for x in frame_c[c].values]  # compared across hash seeds by the parent
    afterc = ([(pa, id(v), float(np.asarray(v).reshape(-1)[0]) if np.asarray(v).size else None) for pa, v in leaves(cpar)], [(k, id(v)) for k, v in cini.items()], [id(v) for v in cvf], len(cvf))
    for name, ok in (("simulate does not modify params / initial_states / vf_arr_list (concrete call)", snapc == afterc), ("simulate does not modify params / initial_states (symbolic call)", [(pa, id(v)) for pa, v in leaves(p1)] == snap_sim and [(k, id(v)) for k, v in init.items()] == snap_init)):
        if ok:
            rec.obligations.append({"name": name, "unit": rec.unit, "verdict": "const"})
        else:
            rec.violation(name, {"what": name + " - violated", "observed": "arguments changed", "expected": "unchanged", "inputs": {}})
    sj.OOB[0] = 10**6
    B = sym_sim(p1, vf, init, **kw)
    rec.paths += len(A) + len(B)

    def sim_replay(vals):
        va = {k: v for k, v in vals.items() if not k.endswith("__2")}
        Ca = Conc(va)
        one = sim(tm.params(Ca), initial_states=tm.init(Ca, 2), vf_arr_list=conc_vf(Ca, ref1, T), **kw)
        Cb = Conc({k[:-3]: v for k, v in vals.items() if k.endswith("__2")})
        sim(tm.params(Cb), initial_states=tm.init(Cb, 2), vf_arr_list=conc_vf(Cb, ref1, T, "Vb"), **({"seed": 99} if stoch else {}))
        two = sim(tm.params(Ca), initial_states=tm.init(Ca, 2), vf_arr_list=conc_vf(Ca, ref1, T), **kw)
        if one.equals(two):
            return None
        return {"what": "repeating a simulate call after another call gives another frame", "observed": two.to_dict(), "expected": one.to_dict()}

    ok = len(A) == len(B)
    rec.prove("simulate: same number of paths", ok, [], replay=sim_replay)
    for k, ((pca, dfa), (pcb, dfb)) in enumerate(zip(A, B)):
        ca, _ = frame_terms(dfa)
        cb, _ = frame_terms(dfb)
        for col in ca:
            for r, (x, y) in enumerate(zip(ca[col], cb[col])):
                rec.prove(f"sim(p1);sim(p2);sim(p1): third==first [{col}][path{k},row={r}]", sj.x_eq(x, y), assume + list(pca), replay=sim_replay)
    # supplementary concrete history check at scale (see u_hashseeds)
    import jax.numpy as jnp

    nL = 640
    Cl = Conc({**dv, **{k: 1.0 for k in S.symbols if k not in dv}})
    A0 = tm.init(Cl, nL)
    rs = np.random.RandomState(0)
    A_init, B_init = {}, {}
    for k, v in A0.items():
        a = np.asarray(v).copy()
        if a.dtype.kind == "f":
            a = rs.uniform(1.0, 4.0, size=nL)
        b = a.copy()
        i, j = nL // 2 - 1, nL // 2  # swap two agents in the middle of the batch
        b[i], b[j] = a[j], a[i]
        A_init[k], B_init[k] = jnp.asarray(a), jnp.asarray(b)
    base_syms = {k: v for k, v in S.symbols.items() if not k.endswith("__2") and not k.startswith("w0") and not k.startswith("v0")}
    rec.rng.seed(12345)  # the same parameter draws in every child process
    large_B = []
    for vals_l in rec.pick_assignments(base_syms, tm.assume(base_syms), n=3):
        Cp = Conc({**{k: 1.0 for k in S.symbols}, **vals_l})
        parL, vfL = tm.params(Cp), conc_vf(Cp, ref1, T)
        if history == "AB":
            sim(parL, initial_states=A_init, vf_arr_list=vfL, **kw)
        fB = sim(parL, initial_states=B_init, vf_arr_list=vfL, **kw)
        large_B += [float(x) for c in fB.columns for x in fB[c].values]
    digest = hashlib.sha1("|".join(sj.strip_tags(sj.z(x)).sexpr() if isinstance(sj.force(x), z3.ExprRef) else repr(x) for t in range(T) for x in r1[t].reshape(-1)).encode()).hexdigest()
    return {"digest": digest, "float_results": floats, "large_B": large_B, "history": history, "bounds": {"template": tm.name}}
