"""C17 - the state-choice space contains exactly the filter-passing combinations."""
from __future__ import annotations

import importlib.util
import itertools

import numpy as np
import z3

from .. import symjax as sj
from .. import symnp
from ..harness import HarnessError
from ..templates import dg, lin

META = {
    "explanation": "(i) E1: every filter is a *symbolic boolean table* T_f[period, its variables] (z3 Bools); the real "
    "state_space.create_filter_mask is executed symbolically (productmap/vmap over the restricted grids, dags aggregation with "
    "logical_and) and each mask entry is decided equal to the conjunction of the table entries of all filters, on the product of "
    "the restricted grids in canonical axis order (restricted states in declaration order, then restricted choices), with the "
    "period fixed. (ii) E3: the real bodies of create_combination_grid, _combine_masks, create_indexers_and_segments and "
    "create_state_choice_space run on a *symbolic mask* through vf/symnp.py (numpy look-alike with symbolic leading length; the "
    "module is loaded a second time with np/jnp rebound): the stored combinations are exactly the passing ones in row-major "
    "order without duplicates (entry at rank(p) is combination p, length = number of passing combinations), the state indexer "
    "is the rank among the states with a passing choice or -1, the choice segments group the stored rows by that rank, "
    "num_segments is the number of such states, unrestricted variables are stored as their full grids.",
    "bounds": "(i) 1-2 restricted states, 1-2 restricted choices with 2-3 labels, 1-3 filters (incl. filters on the period only with a "
    "state, on states only, on choices only), T <= 3, declaration orders permuted; (ii) mask shapes (2,2), (3,2), (2,3), (2,2,2), "
    "(3,3), (2,3,2) [thorough: + (2,2,2,2), (4,3)], n_sparse_states 1-2; all masks of these shapes at once (symbolic bits)",
    "outside": "masks with more than 16 cells; more than 3 filters; filters over continuous variables (not supported by lcm)",
    "assumptions": ["symnp reproduces numpy on the operations used (validated on every run against real numpy on concrete masks: "
    "all masks of shape (2,2), the repository's test masks and pseudo-random masks of every other shape)"],
    "stubs": ["numpy/jnp inside state_space.py -> vf/symnp.py (boolean-mask get/set, any, count_nonzero, cumsum, full, arange, repeat, meshgrid, reshape)"],
}

MASK_SHAPES = [((2, 2), 1), ((3, 2), 1), ((2, 3), 1), ((2, 2, 2), 1), ((2, 2, 2), 2), ((3, 3), 1), ((2, 3, 2), 2)]
MASK_SHAPES_T = MASK_SHAPES + [((2, 2, 2, 2), 2), ((4, 3), 1), ((3, 2, 2), 1)]

FILTER_MODELS = {
    # name: (states {name: n}, choices {name: n}, dense extras, filters {fname: argument tuple}, T)
    "1 state 1 choice, filter(s,d,period)": (dict(s=2), dict(d=2), {}, {"a_filter": ("s", "d", "_period")}, 3),
    "2 states 1 choice, 2 filters": (dict(s=2, q=3), dict(d=2), {}, {"a_filter": ("s", "d"), "b_filter": ("q", "s", "_period")}, 2),
    "1 state 2 choices, 3 filters": (dict(s=3), dict(d=2, e=2), {}, {"a_filter": ("d", "s"), "b_filter": ("e", "d"), "c_filter": ("s", "_period")}, 2),
    "declaration order reversed (q,s / e,d)": (dict(q=3, s=2), dict(e=2, d=2), {}, {"a_filter": ("s", "d", "e"), "b_filter": ("q", "d")}, 2),
    "with unrestricted variables": (dict(s=2, h=3), dict(d=2, g=2), {}, {"a_filter": ("d", "s", "_period")}, 2),
    "states-only and choices-only filters": (dict(s=2, q=2), dict(d=2, e=2), {}, {"a_filter": ("s", "q"), "b_filter": ("d", "e")}, 1),
}


def units(tier):
    out = [(f"filter_mask[{n}]", "u_filter_mask", {"name": n}) for n in FILTER_MODELS]
    out.append(("symnp == numpy on concrete masks", "u_validate", {}))
    for shape, ns in MASK_SHAPES if tier == "quick" else MASK_SHAPES_T:
        out.append((f"indexers_and_segments{list(shape)}[sparse_states={ns}]", "u_indexers", {"shape": shape, "ns": ns}))
        out.append((f"combination_grid{list(shape)}", "u_combination", {"shape": shape}))
    out.append(("state_choice_space[s(2),d(2) + h(3), w]", "u_space", {}))
    out.append(("state_choice_space[filter on choices only: d(2),e(2) + h(3), w]", "u_space_choices", {}))
    return out


# ----------------------------------------------------------------------------------
# (i) filter mask
# ----------------------------------------------------------------------------------
def build_filter_model(S, name):
    from lcm import Model

    states, choices, _extra, filters, T = FILTER_MODELS[name]
    sizes = {**states, **choices}
    tables = {}
    funcs = {}
    for fname, args in filters.items():
        shape = tuple(T if a == "_period" else sizes[a] for a in args)
        tbl = S.bool("T_" + fname, shape)
        tables[fname] = (args, sj.terms(tbl))
        src = f"def {fname}({', '.join(args)}):\n    return __tbl[{', '.join(args)}]\n"
        ns = {"__tbl": tbl}
        exec(src, ns)
        funcs[fname] = ns[fname]
    allvars = list(states) + list(choices)
    usrc = f"def utility({', '.join(allvars)}):\n    return 0.0\n"
    ns = {}
    exec(usrc, ns)
    funcs["utility"] = ns["utility"]
    for s in states:
        nsrc = f"def next_{s}({s}):\n    return {s}\n"
        ns = {}
        exec(nsrc, ns)
        funcs["next_" + s] = ns["next_" + s]
    model = Model(n_periods=T, functions=funcs, choices={c: dg(n) for c, n in choices.items()}, states={s: dg(n) for s, n in states.items()})
    return model, tables, sizes, T


def u_filter_mask(rec, name):
    from lcm.input_processing import process_model
    from lcm.state_space import create_filter_mask

    S = sj.Session()
    model, tables, sizes, T = build_filter_model(S, name)
    rec.symbols = S.symbols
    im = process_model(model)
    restricted = set()
    for fname, (args, _t) in tables.items():
        restricted |= {a for a in args if a != "_period"}
    # canonical order from the user-facing model only: restricted states (declaration order), then restricted choices
    canon = [s for s in model.states if s in restricted] + [c for c in model.choices if c in restricted]
    for t in range(T):
        mask = sj.terms(S.run(lambda: create_filter_mask(model=im, subset=canon, fixed_inputs={"_period": t}, jit_filter=False)))
        shape = tuple(sizes[v] for v in canon)

        def replay(vals, t=t):
            import jax.numpy as jnp

            S2 = sj.Session()
            # concrete tables: rebuild the model with concrete boolean arrays
            from ..harness import Conc

            C = Conc(vals)
            m2, tb2, _s, _T = build_filter_model(C, name)
            im2 = process_model(m2)
            got = np.asarray(create_filter_mask(model=im2, subset=canon, fixed_inputs={"_period": t}, jit_filter=False))
            exp = np.ones(shape, dtype=bool)
            for idx in np.ndindex(*shape):
                env = dict(zip(canon, idx))
                for fname, (args, _tt) in tables.items():
                    key = "T_" + fname + "_" + "_".join(str(t if a == "_period" else env[a]) for a in args)
                    exp[idx] &= bool(vals.get(key, False))
            if got.shape == exp.shape and (got == exp).all():
                return None
            return {"what": "filter mask differs from the conjunction of the filters on the product of the restricted grids", "observed": got.astype(int).tolist(), "expected": exp.astype(int).tolist(), "period": t}

        rec.prove(f"mask shape[t={t}]", tuple(mask.shape) == shape, [], replay=replay)
        if tuple(mask.shape) != shape:
            continue
        for idx in np.ndindex(*shape):
            env = dict(zip(canon, idx))
            exp = True
            for fname, (args, tbl) in tables.items():
                exp = sj.b_and(exp, tbl[tuple(t if a == "_period" else env[a] for a in args)])
            rec.prove(f"mask[t={t}]{idx} == AND of filter tables", sj.z(mask[idx]) == sj.z(exp), [], replay=replay)
    rec.primitives = S.trace.stats
    return {"bounds": {"model": name, "axes": canon}, "symbols": len(S.symbols)}


# ----------------------------------------------------------------------------------
# (ii) the numpy part on a symbolic mask
# ----------------------------------------------------------------------------------
def shadow_state_space():
    """the real lcm/state_space.py loaded under another name with np / jnp rebound to symnp"""
    spec = importlib.util.spec_from_file_location("lcm_state_space_shadow", "/repo/src/lcm/state_space.py")
    mod = importlib.util.module_from_spec(spec)
    spec.loader.exec_module(mod)
    mod.np = symnp
    mod.jnp = symnp
    return mod


def sym_mask(shape, prefix="m"):
    data = np.empty(shape, dtype=object)
    syms = {}
    for idx in np.ndindex(*shape):
        nm = prefix + "_" + "_".join(map(str, idx))
        data[idx] = syms[nm] = z3.Bool(nm)
    return symnp.SymArray(data), syms


def conc_mask(shape, vals, prefix="m"):
    out = np.zeros(shape, dtype=bool)
    for idx in np.ndindex(*shape):
        out[idx] = bool(vals.get(prefix + "_" + "_".join(map(str, idx)), False))
    return out


def ranks(flags):
    out, acc = [], 0
    for f in flags:
        out.append(acc)
        acc = symnp.cnt_add(acc, f)
    return out, acc


def sym_at(arr: symnp.SymArray, j, rest=()):
    """arr[j, *rest] for a symbolic leading index"""
    n = arr.data.shape[0]
    return sj.sym_index(lambda k: arr.data[(k,) + tuple(rest)], n, j)


def u_indexers(rec, shape, ns):
    import lcm.state_space as real

    shadow = shadow_state_space()
    symnp.MAXREP[0] = int(np.prod(shape))
    mask, syms = sym_mask(shape)
    rec.symbols = syms
    try:
        state_indexer, sc_indexer, seg = shadow.create_indexers_and_segments(mask, ns)
    except sj.Unsupported:
        raise
    except Exception as e:  # noqa: BLE001
        # the function body raised on the symbolic mask: confirm with the real function on concrete masks
        rng = np.random.RandomState(3)
        for m in [np.ones(shape, dtype=bool)] + [rng.rand(*shape) > 0.4 for _ in range(5)]:
            if not m.any():
                continue
            try:
                real.create_indexers_and_segments(m, ns)
            except Exception as e2:  # noqa: BLE001
                rec.violation("create_indexers_and_segments runs", {"what": "create_indexers_and_segments raises on a valid mask", "observed": f"{type(e2).__name__}: {str(e2)[:200]}", "expected": "indexers and segments", "mask": m.astype(int).tolist(), "inputs": {}})
                return {}
        raise HarnessError(f"shadow create_indexers_and_segments raised {type(e).__name__}: {e}, the real one does not") from e
    sshape, cshape = shape[:ns], shape[ns:]

    def replay(vals):
        m = conc_mask(shape, vals)
        si, sci, sg = real.create_indexers_and_segments(m, ns)
        feas = m.reshape(sshape + (-1,)).any(axis=-1)
        exp_si = np.full(sshape, -1)
        exp_si[feas] = np.arange(feas.sum())
        srank = exp_si.reshape(-1)
        exp_seg = [int(srank[p // int(np.prod(cshape))]) for p in range(m.size) if m.reshape(-1)[p]]
        ok = (np.asarray(si) == exp_si).all() and list(np.asarray(sg["segment_ids"])) == exp_seg and int(sg["num_segments"]) == int(feas.sum())
        if ok:
            return None
        return {"what": "indexer / segments differ from rank-or-(-1) / grouping by state rank", "observed": {"state_indexer": np.asarray(si).tolist(), "segment_ids": np.asarray(sg["segment_ids"]).tolist(), "num_segments": int(sg["num_segments"])}, "expected": {"state_indexer": exp_si.tolist(), "segment_ids": exp_seg, "num_segments": int(feas.sum())}, "mask": m.astype(int).tolist()}

    mt = mask.data
    feas = {}
    for s in np.ndindex(*sshape):
        feas[s] = sj.b_any([mt[s + c] for c in np.ndindex(*cshape)])
    forder = list(np.ndindex(*sshape))
    frank, nfeas = ranks([feas[s] for s in forder])
    # state indexer
    si = state_indexer
    rec.prove("state_indexer shape", tuple(si.data.shape) == tuple(sshape) and si.length is None, [], replay=replay)
    for k, s in enumerate(forder):
        rec.prove(f"state_indexer{s} == rank or -1", sj._cmp("eq", si.data[s], sj.ite(feas[s], frank[k], -1)), [], replay=replay)
    nseg = seg["num_segments"]
    nseg_t = nseg.term if isinstance(nseg, symnp.SymDim) else nseg
    rec.prove("num_segments == number of states with a passing choice", sj._cmp("eq", nseg_t, nfeas), [], replay=replay)
    # segments: one entry per passing combination (row-major), value = rank of its state
    positions = list(np.ndindex(*shape))
    prank, total = ranks([mt[p] for p in positions])
    segs = seg["segment_ids"]
    rec.prove("len(segment_ids) == number of passing combinations", sj._cmp("eq", segs.length if segs.length is not None else segs.data.shape[0], total), [], replay=replay)
    for k, p in enumerate(positions):
        sidx = forder.index(p[:ns])
        got = sym_at(segs, prank[k])
        rec.prove(f"segment of combination {p} == rank of its state", sj.ite_b(mt[p], sj._cmp("eq", got, frank[sidx]), True), [], replay=replay)
    # state-choice indexer: rank among all passing combinations, -1 otherwise (first axis = feasible states)
    sci = sc_indexer
    for k, p in enumerate(positions):
        sidx = forder.index(p[:ns])
        cell = sj.sym_index(lambda r, p=p: sci.data[(r,) + p[ns:]], sci.data.shape[0], frank[sidx])
        rec.prove(f"state_choice_indexer at {p}", sj.ite_b(feas[p[:ns]], sj._cmp("eq", cell, sj.ite(mt[p], prank[k], -1)), True), [], replay=replay)
    return {"bounds": {"mask_shape": list(shape), "n_sparse_states": ns, "mask_bits": int(np.prod(shape))}, "symbols": len(syms)}


def u_combination(rec, shape):
    import jax.numpy as jnp
    import lcm.state_space as real

    shadow = shadow_state_space()
    mask, syms = sym_mask(shape)
    rec.symbols = syms
    names = [f"v{i}" for i in range(len(shape))]
    # distinct, non-trivial grid values; an extra variable that is not in the subset, and a subset order
    # that differs from the dict order
    grids = {"zz_dense": np.arange(4)}
    for i, n in enumerate(shape):
        grids[names[i]] = np.arange(n) * (i + 2) + 10 * (i + 1)
    subset = list(reversed(names))
    out = shadow.create_combination_grid(grids=grids, masks=mask, subset=subset)
    positions = list(np.ndindex(*shape))
    mt = mask.data
    prank, total = ranks([mt[p] for p in positions])

    def replay(vals):
        m = conc_mask(shape, vals)
        got = real.create_combination_grid(grids={k: jnp.asarray(v) for k, v in grids.items()}, masks=jnp.asarray(m), subset=subset)
        exp = {nme: [int(grids[nme][p[i]]) for p in positions if m[p]] for i, nme in enumerate(names)}
        ok = list(got) == names and all(list(np.asarray(got[nme])) == exp[nme] for nme in names)
        if ok:
            return None
        return {"what": "combination grid differs from the passing combinations in row-major order", "observed": {k: np.asarray(v).tolist() for k, v in got.items()}, "expected": exp, "mask": m.astype(int).tolist()}

    rec.prove("variables in grid order", list(out) == names, [], replay=replay)
    for i, nme in enumerate(names):
        if nme not in out:
            continue
        arr = out[nme]
        rec.prove(f"len({nme}) == number of passing combinations", sj._cmp("eq", arr.length if arr.length is not None else arr.data.shape[0], total), [], replay=replay)
        for k, p in enumerate(positions):
            rec.prove(f"{nme}[rank{p}] == grid value", sj.ite_b(mt[p], sj._cmp("eq", sym_at(arr, prank[k]), int(grids[nme][p[i]])), True), [], replay=replay)
    return {"bounds": {"mask_shape": list(shape)}, "symbols": len(syms)}


def two_masks_validation(shadow, real):
    """_combine_masks with several masks of different rank (repo test: test_create_combination_grid_2_masks)"""
    import jax.numpy as jnp

    rng = np.random.RandomState(0)
    for _ in range(20):
        m1 = rng.rand(2, 3) > 0.4
        m2 = rng.rand(2) > 0.3
        a = real._combine_masks([jnp.asarray(m1), jnp.asarray(m2)])
        b = shadow._combine_masks([symnp.array(m1), symnp.array(m2)])
        bb = np.array([[bool(x) for x in row] for row in b.data])
        if not (np.asarray(a) == bb).all():
            raise HarnessError("symnp _combine_masks differs from numpy")


def u_validate(rec):
    """trusted base: the same real function bodies on symnp (concrete content) vs on real numpy"""
    import jax.numpy as jnp
    import lcm.state_space as real

    shadow = shadow_state_space()
    n = 0
    cases = [((2, 2), 1, list(itertools.product([False, True], repeat=4)))]
    rng = np.random.RandomState(1)
    for shape, ns in MASK_SHAPES_T:
        cases.append((shape, ns, [tuple(rng.rand(int(np.prod(shape))) > 0.45) for _ in range(12)] + [tuple([True] * int(np.prod(shape))), tuple([False] * int(np.prod(shape)))]))
    # repository test mask (tests/test_state_space.py::test_create_indexers_and_segments)
    repo = np.full((3, 3, 2), False)
    repo[0, 0, 0] = True
    repo[0, 1, 0] = True
    repo[2, 2, 1] = True
    cases.append(((3, 3, 2), 2, [tuple(repo.reshape(-1))]))
    for shape, ns, masks in cases:
        symnp.MAXREP[0] = int(np.prod(shape))
        for bits in masks:
            m = np.array(bits, dtype=bool).reshape(shape)
            if not m.any():
                continue  # lcm's own numpy code fails on an all-false mask in np.repeat? keep to masks lcm can process
            a_si, a_sci, a_seg = real.create_indexers_and_segments(m, ns)
            b_si, b_sci, b_seg = shadow.create_indexers_and_segments(symnp.array(m), ns)
            L = int(m.sum())
            nf = int(a_seg["num_segments"])
            bn = b_seg["num_segments"]
            bn = bn if isinstance(bn, int) else int(sj._py(bn.term))
            ok = (np.asarray(a_si) == np.array(b_si.data, dtype=int)).all() and bn == nf
            ok = ok and list(np.asarray(a_seg["segment_ids"])) == [int(x) for x in b_seg["segment_ids"].data[:L]]
            ok = ok and (np.asarray(a_sci) == np.array(b_sci.data[:nf], dtype=int)).all()
            grids = {f"v{i}": np.arange(k) + 5 * i for i, k in enumerate(shape)}
            a_cg = real.create_combination_grid({k: jnp.asarray(v) for k, v in grids.items()}, jnp.asarray(m))
            b_cg = shadow.create_combination_grid(grids, symnp.array(m))
            ok = ok and all(list(np.asarray(a_cg[k])) == [int(x) for x in b_cg[k].data[:L]] for k in grids)
            if not ok:
                raise HarnessError(f"symnp differs from numpy on mask {m.astype(int).tolist()}")
            n += 1
    two_masks_validation(shadow, real)
    rec.tv_points += n
    rec.obligations.append({"name": f"symnp == numpy on {n} concrete masks", "unit": rec.unit, "verdict": "const"})
    return {"bounds": {"concrete_masks": n}}


def u_space(rec):
    """create_state_choice_space around the numpy functions: symbolic mask in, Space / indexer / segments out"""
    import jax.numpy as jnp
    from lcm import Model
    from lcm.input_processing import process_model

    shadow = shadow_state_space()
    model = Model(
        n_periods=2,
        functions=dict(utility=lambda s, d, h, w: s + d + h + w, next_s=lambda d: d, next_h=lambda h: h, next_w=lambda w: w, sd_filter=lambda s, d: jnp.logical_or(d == 1, s == 0)),
        choices=dict(d=dg(2)),
        states=dict(w=lin(0, 2, 3), h=dg(3), s=dg(2)),
    )
    im = process_model(model)
    mask, syms = sym_mask((2, 2))
    rec.symbols = syms
    symnp.MAXREP[0] = 4
    shadow.create_filter_mask = lambda **kw: mask
    space, info, indexers, segments = shadow.create_state_choice_space(model=im, period=0, is_last_period=False, jit_filter=False)
    mt = mask.data
    positions = list(np.ndindex(2, 2))
    prank, total = ranks([mt[p] for p in positions])

    def replay(vals):
        import lcm.state_space as real

        m = conc_mask((2, 2), vals)
        if not m.any():
            return None
        orig = real.create_filter_mask
        real.create_filter_mask = lambda **kw: jnp.asarray(m)
        try:
            sp, _i, ix, sg = real.create_state_choice_space(model=im, period=0, is_last_period=False, jit_filter=False)
        finally:
            real.create_filter_mask = orig
        exp_s = [p[0] for p in positions if m[p]]
        exp_d = [p[1] for p in positions if m[p]]
        ok = list(sp.sparse_vars) == ["s", "d"] and list(np.asarray(sp.sparse_vars["s"])) == exp_s and list(np.asarray(sp.sparse_vars["d"])) == exp_d
        ok = ok and list(sp.dense_vars) == ["h", "w"] and list(np.asarray(sp.dense_vars["h"])) == [0, 1, 2]
        feas_c = m.any(axis=1)
        exp_ix = np.full(2, -1)
        exp_ix[feas_c] = np.arange(feas_c.sum())
        ok = ok and np.asarray(ix["state_indexer"]).shape == (2,) and (np.asarray(ix["state_indexer"]) == exp_ix).all() and int(sg["num_segments"]) == int(feas_c.sum())
        if ok:
            return None
        return {"what": "state-choice space differs from the passing combinations / full grids", "observed": {k: np.asarray(v).tolist() for k, v in {**sp.sparse_vars, **sp.dense_vars}.items()}, "expected": {"s": exp_s, "d": exp_d, "h": [0, 1, 2]}}

    rec.prove("sparse variables in canonical order (state, then choice)", list(space.sparse_vars) == ["s", "d"], [], replay=replay)
    rec.prove("unrestricted variables stored as full grids", list(space.dense_vars) == ["h", "w"] and [int(x) for x in np.asarray(space.dense_vars["h"])] == [0, 1, 2] and len(np.asarray(space.dense_vars["w"])) == 3, [], replay=replay)
    for k, p in enumerate(positions):
        for vi, v in enumerate(["s", "d"]):
            if v in space.sparse_vars:
                rec.prove(f"{v}[rank{p}]", sj.ite_b(mt[p], sj._cmp("eq", sym_at(space.sparse_vars[v], prank[k]), p[vi]), True), [], replay=replay)
    feas = [sj.b_or(mt[(s, 0)], mt[(s, 1)]) for s in range(2)]
    fr, nf = ranks(feas)
    si = indexers["state_indexer"]
    rec.prove("state_indexer has one axis per restricted state", tuple(si.data.shape) == (2,), [], replay=replay)
    if tuple(si.data.shape) == (2,):
        for s in range(2):
            rec.prove(f"state_indexer[{s}]", sj._cmp("eq", si.data[s], sj.ite(feas[s], fr[s], -1)), [], replay=replay)
    nseg = segments["num_segments"]
    rec.prove("num_segments == number of restricted states with a passing choice", sj._cmp("eq", nseg.term if isinstance(nseg, symnp.SymDim) else nseg, nf), [], replay=replay)
    rec.prove("space_info axis names", info.axis_names == ["state_index", "h", "w"], [], replay=replay)
    return {"bounds": {"mask_shape": [2, 2]}, "symbols": 4}



def u_space_choices(rec):
    """create_state_choice_space for a filter that restricts CHOICES only (no restricted state): the passing
    choice combinations are stored, there is no state indexer, and all of them form ONE segment (the
    discrete problem maximises over them for every state)"""
    import jax.numpy as jnp
    from lcm import Model
    from lcm.input_processing import process_model

    shadow = shadow_state_space()
    model = Model(
        n_periods=2,
        functions=dict(utility=lambda d, e, h, w: d + e + h + w, next_h=lambda h: h, next_w=lambda w: w, de_filter=lambda d, e: d + e <= 1),
        choices=dict(d=dg(2), e=dg(2)),
        states=dict(w=lin(0, 2, 3), h=dg(3)),
    )
    im = process_model(model)
    mask, syms = sym_mask((2, 2))
    rec.symbols = syms
    symnp.MAXREP[0] = 4
    shadow.create_filter_mask = lambda **kw: mask
    space, info, indexers, segments = shadow.create_state_choice_space(model=im, period=0, is_last_period=False, jit_filter=False)
    mt = mask.data
    positions = list(np.ndindex(2, 2))
    prank, total = ranks([mt[p] for p in positions])

    def replay(vals):
        import lcm.state_space as real

        m = conc_mask((2, 2), vals)
        if not m.any():
            m = np.ones((2, 2), dtype=bool)  # structural obligations do not depend on the mask
        orig = real.create_filter_mask
        real.create_filter_mask = lambda **kw: jnp.asarray(m)
        try:
            sp, inf, ix, sg = real.create_state_choice_space(model=im, period=0, is_last_period=False, jit_filter=False)
        finally:
            real.create_filter_mask = orig
        exp_d = [p[0] for p in positions if m[p]]
        exp_e = [p[1] for p in positions if m[p]]
        ok = list(sp.sparse_vars) == ["d", "e"] and list(np.asarray(sp.sparse_vars["d"])) == exp_d and list(np.asarray(sp.sparse_vars["e"])) == exp_e
        ok = ok and list(sp.dense_vars) == ["h", "w"] and not ix and inf.axis_names == ["h", "w"]
        ok = ok and sg is not None and list(np.asarray(sg["segment_ids"])) == [0] * int(m.sum()) and int(sg["num_segments"]) == 1
        if ok:
            return None
        return {"what": "state-choice space of a choices-only filter: passing combinations must form one segment, no state indexer", "observed": {"sparse": {k: np.asarray(v).tolist() for k, v in sp.sparse_vars.items()}, "indexers": list(ix), "segments": None if sg is None else {k: np.asarray(v).tolist() for k, v in sg.items()}}, "expected": {"d": exp_d, "e": exp_e, "segment_ids": [0] * int(m.sum()), "num_segments": 1}}

    anyp = sj.b_or(sj.b_or(mt[(0, 0)], mt[(0, 1)]), sj.b_or(mt[(1, 0)], mt[(1, 1)]))
    rec.prove("sparse variables are the restricted choices in declaration order", list(space.sparse_vars) == ["d", "e"], [], replay=replay)
    rec.prove("states stored as full grids", list(space.dense_vars) == ["h", "w"], [], replay=replay)
    rec.prove("no state indexer", not indexers, [], replay=replay)
    rec.prove("space_info axis names", info.axis_names == ["h", "w"], [], replay=replay)
    rec.prove("choice segments exist", segments is not None, [], replay=replay)
    if segments is not None:
        nseg = segments["num_segments"]
        rec.prove("one segment", sj.ite_b(anyp, sj._cmp("eq", nseg.term if isinstance(nseg, symnp.SymDim) else nseg, 1), True), [], replay=replay)
        segs = segments["segment_ids"]
        rec.prove("len(segment_ids) == number of passing combinations", sj._cmp("eq", segs.length if segs.length is not None else segs.data.shape[0], total), [], replay=replay)
        for k, p in enumerate(positions):
            rec.prove(f"segment of combination {p} == 0", sj.ite_b(mt[p], sj._cmp("eq", sym_at(segs, prank[k]), 0), True), [], replay=replay)
    for k, p in enumerate(positions):
        for vi, v in enumerate(["d", "e"]):
            if v in space.sparse_vars:
                rec.prove(f"{v}[rank{p}]", sj.ite_b(mt[p], sj._cmp("eq", sym_at(space.sparse_vars[v], prank[k]), p[vi]), True), [], replay=replay)
    return {"bounds": {"mask_shape": [2, 2]}, "symbols": 4}
