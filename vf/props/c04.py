"""C04 - stochastic draws: specified probabilities, independent, seed-reproducible."""
from __future__ import annotations

import itertools

import numpy as np
import z3

from .. import symjax as sj
from ..harness import Conc, close
from .c02 import row_env, setup
from .c03 import prob_assumptions, uni_assumptions
from .pipeline import conc_simulate, confirm_crash, default_values, frame_terms, get_function, sym_simulate

META = {
    "explanation": "Decidable core of the property, from symbolic runs of the real simulate function with a *symbolic seed*, symbolic "
    "transition arrays and PRNG keys modelled as terms of a free algebra (z3 datatype: seedkey(seed), split(key,i), fold_in(key,d)); "
    "a draw is 1+u with a fresh real u in [0,1) per (key, index): (a) a label with probability zero is never drawn; (b) the label "
    "map is the exact inverse CDF of the selected row: label == k  <=>  cum_{k-1} < (1-u)*total <= cum_k, for all rows (incl. zeros "
    "and degenerate rows) and all u - so if u is uniform the label has probability p_k/total, i.e. the frequency claim reduces to "
    "the uniformity of the PRNG, which is trusted; (c) key hygiene: the keys that reach random_bits over all periods x stochastic "
    "variables x agents are pairwise different for every seed and none is used twice (distinct keys are what JAX's contract turns "
    "into independence across agents, periods and variables); (d) no period-0 cell depends on the seed; (e) two runs with the same "
    "seed give identical frames.",
    "bounds": "templates TE (dependencies state, choice, period; two orders) and TK (two stochastic states, different dependency orders), "
    "2-3 agents (thorough 4), T = 2 (thorough 3); all paths",
    "outside": "any statistical statement about threefry itself (uniformity, independence of distinct keys are trusted); more agents/periods",
    "assumptions": ["probability entries >= 0 and positive row sums", "0 <= u < 1"],
    "stubs": ["random_seed/split/fold_in -> datatype terms; random_bits + mantissa trick -> 1 + u(key, index)"],
}

QUICK = [(("TE", dict(T=2)), 2), (("TE", dict(T=2, dep=("d", "h"))), 3), (("TK", dict(T=2)), 2)]
THOROUGH = QUICK + [(("TE", dict(T=3)), 2), (("TK", dict(T=3)), 2), (("TE", dict(T=2, dep=("_period",))), 4), (("TK", dict(T=2)), 4)]


def units(tier):
    from .c01 import spec_name

    out = [(f"draws:{spec_name(s)}|agents={n}", "u_draws", {"spec": s, "n": n}) for s, n in (QUICK if tier == "quick" else THOROUGH)]
    out.append(("random_choice kernel", "u_kernel", {}))
    return out


def uni_apps(term):
    out = {}
    stack = [sj.z(sj.force(term))] if sj.is_sym(term) else []
    seen = set()
    while stack:
        e = stack.pop()
        if e.get_id() in seen:
            continue
        seen.add(e.get_id())
        if z3.is_app(e) and e.decl().name() == "uni":
            out[e.get_id()] = e
        stack.extend(e.children())
    return list(out.values())


def inverse_cdf_claims(L, u, weights):
    """[(k, claim)] : (L == k) <=> cum_{k-1} < (1-u)*total <= cum_k"""
    ws = [sj.zr(w) for w in weights]
    total = z3.Sum(ws)
    r = (1 - u) * total
    cum = [z3.RealVal(0)]
    for w in ws:
        cum.append(cum[-1] + w)
    out = []
    for k in range(len(ws)):
        out.append((k, sj.z(sj._cmp("eq", L, k)) == z3.And(cum[k] < r, r <= cum[k + 1])))
    return out


def kernel_replay(probs_rows, n_labels):
    """real random_choice vs inverse CDF of the real uniform draws, many keys"""
    import jax
    import jax.numpy as jnp
    from lcm.random_choice import random_choice

    rows = np.array([[float(x) for x in r] for r in probs_rows], dtype=float)
    reps = max(1, 256 // len(rows))
    P = np.tile(rows, (reps, 1))
    for seed in range(3):
        key = jax.random.PRNGKey(seed)
        got = np.asarray(random_choice(key, jnp.asarray(P), jnp.arange(n_labels)))
        keys = jax.random.split(key, P.shape[0])
        us = np.asarray(jax.vmap(lambda k: jax.random.uniform(k, (), dtype=jnp.float64))(keys))
        for i in range(P.shape[0]):
            cum = np.cumsum(P[i])
            r = cum[-1] * (1 - us[i])
            exp = int(np.searchsorted(cum, r, side="left"))
            if P[i][int(got[i])] <= 0 or int(got[i]) != exp:
                return {"what": "random_choice does not invert the CDF of the given row", "observed": int(got[i]), "expected": exp, "row": P[i].tolist(), "u": float(us[i])}
    return None


def u_draws(rec, spec, n):
    tm, S, params, ref, vf, init, assume, T = setup(rec, spec, n)
    sj.UNI_TERMS.clear()
    sj.BITS_KEYS.clear()
    holder = {}

    def conc_run(vals, seed=None):
        return conc_simulate(tm, holder["sim"], vals, ref, n, seed=seed)

    try:
        paths, sim = sym_simulate(rec, tm, S, params, vf, init, base=assume + prob_assumptions(params))
        holder["sim"] = sim
    except Exception as e:  # noqa: BLE001
        holder["sim"] = get_function(tm.model, "simulate", True)[0]
        dv = default_values(tm)
        confirm_crash(rec, "simulate runs", e, lambda: conc_run(dv), key=f"{rec.unit}/simulate raises")
        return {}
    keys_first_path = None
    assume = assume + prob_assumptions(params) + uni_assumptions()
    seed_sym = S.symbols["seed"]
    n_draws = 0

    def rows_replay(vals):
        vals = {k: v for k, v in vals.items() if k in S.symbols}
        rows = []
        for name, arr in params["shocks"].items():
            P = sj.terms(arr)
            for i in np.ndindex(*P.shape[:-1]):
                rows.append((len(P[i]), [float(sj.evaluate(x, {S.symbols[k]: v for k, v in vals.items()})) for x in P[i]]))
        for nl in {r[0] for r in rows}:
            rr = [r[1] for r in rows if r[0] == nl and sum(r[1]) > 0 and min(r[1]) >= 0]
            if rr:
                out = kernel_replay(rr, nl)
                if out is not None:
                    return out
        return routing_replay(vals)

    def routing_replay(vals):
        """which row is drawn from: record the probability rows the real (eager) simulation hands to
        random_choice and compare them, per period and stochastic variable, with the rows of the
        transition arrays selected by the agents' states, choices and period in the simulated frame"""
        import jax
        import lcm.next_state as ns

        vals = {k: v for k, v in vals.items() if k in S.symbols}
        seen = []
        orig = ns.random_choice

        def spy(key, probs, labels):
            seen.append(np.asarray(probs, dtype=float))
            return orig(key, probs, labels)

        ns.random_choice = spy
        try:
            with jax.disable_jit():
                frame = conc_run(vals, 11)
        finally:
            ns.random_choice = orig
        subs = {S.symbols[k]: v for k, v in vals.items()}
        ccols, _ix = frame_terms(frame)
        unused = list(seen)
        for t in range(T):
            exp = {}
            for i in range(n):
                st, ch = row_env(ref, ccols, t * n + i)
                _det, sto = ref.next_states({**st, **ch}, t)
                for s_, nodes in sto:
                    exp.setdefault(s_, []).append([float(sj.evaluate(w, subs)) for (_, w) in nodes])
            for s_, rows in exp.items():
                E = np.array(rows, dtype=float)
                hit = next((k for k, m in enumerate(unused) if m.shape == E.shape and np.allclose(m, E, rtol=1e-6, atol=1e-9)), None)
                if hit is None:
                    return {"what": f"the probabilities handed to the draw of next {s_} in period {t} are not the rows of params['shocks'] selected by the agents' states, choices and period", "observed": [m.tolist() for m in seen if m.shape == E.shape][:4], "expected": E.tolist()}
                unused.pop(hit)
        return None

    def key_replay(vals):
        """concrete demonstration of key misuse: record the per-agent keys consumed by the real
        random_choice calls of a real (eager) simulation and look for duplicates"""
        import jax
        import lcm.next_state as ns

        vals = {k: v for k, v in vals.items() if k in S.symbols}
        used = []
        orig = ns.random_choice

        def spy(key, probs, labels):
            ks = jax.random.split(key, probs.shape[0])
            data = np.asarray(jax.random.key_data(ks)) if jax.dtypes.issubdtype(ks.dtype, jax.dtypes.prng_key) else np.asarray(ks)
            used.extend(tuple(int(x) for x in row) for row in data.reshape(len(data), -1))
            return orig(key, probs, labels)

        ns.random_choice = spy
        try:
            with jax.disable_jit():
                conc_run(vals, 11)
        finally:
            ns.random_choice = orig
        expected = T * len(ref.stoch) * n
        if len(set(used)) != len(used) or len(used) != expected:
            return {"what": "PRNG keys are reused (or the number of draws is wrong): draws are not independent across agents / periods / variables", "observed": {"draws": len(used), "distinct keys": len(set(used))}, "expected": {"draws": expected, "distinct keys": expected}}
        return None

    def frame_replay(vals):
        vals = {k: v for k, v in vals.items() if k in S.symbols}
        a, b = conc_run(vals, 7), conc_run(vals, 7)
        if not a.equals(b):
            return {"what": "two simulations with the same seed differ", "observed": "frames differ", "expected": "identical frames"}
        c = conc_run(vals, 8)
        if not a.iloc[:n].equals(c.iloc[:n]):
            return {"what": "period-0 rows depend on the seed", "observed": c.iloc[:n].to_dict(), "expected": a.iloc[:n].to_dict()}
        return None

    for pi, (pc, df) in enumerate(paths):
        cols, index = frame_terms(df)
        # (d) period 0 does not depend on the seed
        seed2 = z3.Int("seed_other")
        for col in cols:
            for i in range(n):
                cell = sj.force(cols[col][i])
                if isinstance(cell, sj.XR):
                    cell_terms = [cell.ninf, cell.val]
                else:
                    cell_terms = [cell]
                for ct in cell_terms:
                    if isinstance(ct, z3.ExprRef):
                        other = z3.substitute(ct, (seed_sym, seed2))
                        rec.prove(f"period0-seed-free[{col}][path{pi},agent={i}]", ct == other, assume + pc.upto(0), replay=frame_replay)
        # (a)/(b) per draw
        for t in range(T - 1):
            pre = assume + pc.upto(t + 1)
            for i in range(n):
                r0, r1 = t * n + i, (t + 1) * n + i
                st, ch = row_env(ref, cols, r0)
                det, sto = ref.next_states({**st, **ch}, t)
                for s, nodes in sto:
                    L = cols[s][r1]
                    # the draw's own uniform: the label of period t+1 may also contain the uniforms of earlier
                    # periods through the agent's period-t state (they select the row); those are excluded
                    earlier = set()
                    for cell in list(st.values()) + list(ch.values()):
                        earlier |= {u.get_id() for u in uni_apps(cell)}
                    us = [u for u in uni_apps(L) if u.get_id() not in earlier]
                    tag = f"{s}][path{pi},t={t},agent={i}"
                    rec.prove(f"one-uniform-per-draw[{tag}]", len(us) == 1, [], replay=rows_replay)
                    if len(us) != 1:
                        continue
                    n_draws += 1
                    weights = [w for (_, w) in nodes]
                    psel = sj.sym_index(lambda k: weights[k], len(weights), L)
                    rec.prove(f"zero-probability-never-drawn[{tag}]", sj._cmp("gt", psel, 0), pre, replay=rows_replay)
                    for k, claim in inverse_cdf_claims(L, us[0], weights):
                        rec.prove(f"inverse-cdf[label={k}][{tag}]", claim, pre, replay=rows_replay)
        if pi == 0:
            keys_first_path = list(sj.BITS_KEYS)
    # (c) key hygiene on every path's keys: BITS_KEYS accumulates over paths; check per path block
    per_path = len(sj.BITS_KEYS) // max(len(paths), 1)
    for pi in range(len(paths)):
        ks = sj.BITS_KEYS[pi * per_path : (pi + 1) * per_path]
        rec.prove(f"keys-used-once[path{pi}]", len({k.get_id() for k in ks}) == len(ks), [], replay=key_replay)
        uniq = list({k.get_id(): k for k in ks}.values())
        clash = z3.Or([a == b for a, b in itertools.combinations(uniq, 2)]) if len(uniq) > 1 else z3.BoolVal(False)
        rec.prove(f"keys-pairwise-different-for-every-seed[path{pi}] ({len(uniq)} keys)", z3.Not(clash), [], replay=key_replay)
        expected = T * len(ref.stoch) * n  # one draw per period (incl. the transition after the last period), variable and agent
        rec.prove(f"number-of-draws[path{pi}]", len(ks) == expected, [], replay=key_replay)
    # (e) same seed, same frame: two further symbolic runs (same symbolic seed) must give identical terms;
    # the counter of the engine's fresh "out-of-range" symbols is reset so that names coincide
    frames = []
    for _ in range(2):
        sj.OOB[0] = 10**6
        sj.UNI_TERMS.clear()
        ps, _sim = sym_simulate(rec, tm, S, params, vf, init, base=assume)
        frames.append(ps)
    ok = len(frames[0]) == len(frames[1])
    for (pc1, d1), (pc2, d2) in zip(frames[0], frames[1]):
        c1, _ = frame_terms(d1)
        c2, _ = frame_terms(d2)
        for col in c1:
            for a, b in zip(c1[col], c2[col]):
                a, b = sj.force(a), sj.force(b)
                if isinstance(a, sj.XR) and isinstance(b, sj.XR):
                    ok = ok and sj.same(a.val, b.val) and sj.same(a.ninf, b.ninf)
                else:
                    ok = ok and sj.same(a, b)
    rec.prove("same-seed-same-frame (all paths, all cells)", bool(ok), [], replay=frame_replay)
    return {"bounds": {"template": tm.name, "agents": n, "T": T, "paths": len(paths), "draws_checked": n_draws, "keys": per_path}, "symbols": len(S.symbols)}


def u_kernel(rec):
    """random_choice alone: symbolic key (symbolic seed), symbolic probabilities, 1-4 labels"""
    import jax
    import jax.numpy as jnp
    from lcm.random_choice import random_choice

    for nl in (1, 2, 3, 4):
        S = sj.Session()
        sj.UNI_TERMS.clear()
        sj.BITS_KEYS.clear()
        P = S.real("p", (2, nl))
        seed = S.int("seed")
        rec.symbols = S.symbols
        out = sj.terms(S.run(lambda P, seed: random_choice(jax.random.PRNGKey(seed), P, jnp.arange(nl)), P, seed))
        rec.primitives = {**getattr(rec, "primitives", {}), **S.trace.stats}
        Pt = sj.terms(P)
        pre = [sj.z(x) >= 0 for x in Pt.reshape(-1)] + [z3.Sum([sj.z(x) for x in Pt[i]]) > 0 for i in range(2)] + uni_assumptions()

        def replay(vals, nl=nl):
            rows = [[float(vals[f"p_{i}_{k}"]) for k in range(nl)] for i in range(2)]
            rows = [r for r in rows if sum(r) > 0 and min(r) >= 0]
            return kernel_replay(rows, nl) if rows else None

        for i in range(2):
            us = uni_apps(out[i])
            rec.prove(f"one-uniform[labels={nl},row={i}]", len(us) == (1 if nl >= 1 else 0), [], replay=replay)
            if len(us) != 1:
                continue
            L = out[i]
            rec.prove(f"in-range[labels={nl},row={i}]", sj.b_and(sj._cmp("ge", L, 0), sj._cmp("lt", L, nl)), pre, replay=replay)
            for k, claim in inverse_cdf_claims(L, us[0], list(Pt[i])):
                rec.prove(f"inverse-cdf[labels={nl},row={i},label={k}]", claim, pre, replay=replay)
        ks = list(sj.BITS_KEYS)
        rec.prove(f"one key per row[labels={nl}]", len(ks) == 2 and not ks[0].eq(ks[1]), [], replay=replay)
        if len(ks) == 2:
            rec.prove(f"row keys differ for every seed[labels={nl}]", ks[0] != ks[1], [], replay=replay)
    return {"bounds": {"labels": "1-4", "rows": 2}}
