"""C08 - agents are simulated independently of each other."""
from __future__ import annotations

import itertools

import numpy as np
import z3

from .. import symjax as sj
from ..harness import Conc, close
from ..refsem import Ref
from ..templates import build
from .pipeline import confirm_crash, default_values, frame_terms, get_function, sym_vf, conc_vf

META = {
    "explanation": "Pairs of symbolic runs of the real simulate function on a batch of agents (symbolic continuous states, all "
    "assignments of discrete initial states listed, symbolic params and value arrays) and on a transformed batch: every "
    "permutation of a 3-agent batch, every sub-batch, a batch with a duplicated agent, and the initial_states mapping with "
    "reversed key order. For every pair of compatible paths (path conditions jointly satisfiable) and every period the solver "
    "decides that the corresponding rows (value, choices, states) are equal for all inputs. For a stochastic model the period-0 rows are "
    "compared the same way.",
    "bounds": "deterministic templates TA, TB, TC, TD, TG, TH, TM with 3 agents and T = 2 (TD, TG: T = 1; thorough: TD with T = 2); for templates whose later periods fork the quick tier uses 6 of the 16 transformations; stochastic TE, TK: period 0 only; path cap 64",
    "outside": "batches of more than 3 agents; later periods of stochastic models (draws are tied to the agent's position by design)",
    "assumptions": ["as C02"],
    "stubs": [],
}

DET = [("TQ", dict(T=1)), ("TQ", dict(T=2)), ("TA", dict(T=2)), ("TB", dict(T=2)), ("TC", dict(T=2, nw=3, nc=2)), ("TG", dict(T=1)), ("TH", dict(T=2)), ("TM", dict(T=2))]


def units(tier):
    from .c01 import spec_name

    out = []
    for spec in DET:
        out.append((f"independent:{spec_name(spec)}|agents=3", "u_indep", {"spec": spec, "n": 3, "period0_only": False}))
    out.append(("independent:TD[T=1,nw=3]|agents=2", "u_indep", {"spec": ("TD", dict(T=1, nw=3)), "n": 2, "period0_only": False}))
    for spec in [("TE", dict(T=2)), ("TK", dict(T=2))]:
        out.append((f"independent-period0:{spec_name(spec)}|agents=3", "u_indep", {"spec": spec, "n": 3, "period0_only": True}))
    if tier == "thorough":
        out = [(a, b, dict(c, full=True)) for a, b, c in out]
        out.append(("independent:TC[T=3]|agents=2", "u_indep", {"spec": ("TC", dict(T=3, nw=3, nc=2)), "n": 2, "period0_only": False}))
        out.append(("independent:TD[T=2,nw=3]|agents=2", "u_indep", {"spec": ("TD", dict(T=2, nw=3)), "n": 2, "period0_only": False}))
        out.append(("independent:TN[T=2]|agents=3", "u_indep", {"spec": ("TN", dict(T=2)), "n": 3, "period0_only": False}))
    return out


def select_agents(init, sel, reverse_keys=False):
    import jax.numpy as jnp

    items = list(init.items())
    if reverse_keys:
        items = items[::-1]
    out = {}
    for k, v in items:
        if isinstance(v, sj.SymTracer):
            out[k] = v._trace.lift(sj.terms(v)[np.asarray(sel)], v.aval.dtype)
        else:
            out[k] = jnp.asarray(np.asarray(v)[np.asarray(sel)])
    return out


def u_indep(rec, spec, n, period0_only, full=False):
    tm = build(tuple(spec))
    S = sj.Session()
    sj.SIDE.clear()
    sj.TAGGING[0] = False
    sj.AMBIENT[:] = []
    params = tm.params(S)
    ref = Ref(tm.model, params, S)
    T = tm.model.n_periods
    vf = sym_vf(S, ref, T)
    init = tm.init(S, n)
    assume = tm.assume(S.symbols)
    rec.symbols = S.symbols
    sim, _ = get_function(tm.model, "simulate", True)
    stochastic = bool(ref.stoch)
    kw = {"seed": 5} if stochastic else {}

    def sym_run(sel, rev=False):
        ini = select_agents(init, sel, rev)
        return S.run_paths(lambda: sim(params, initial_states=ini, vf_arr_list=vf, **kw), base=assume, cap=64)

    def conc_run(vals, sel, rev=False):
        C = Conc(vals)
        ini = select_agents(tm.init(C, n), sel, rev)
        return sim(tm.params(C), initial_states=ini, vf_arr_list=conc_vf(C, ref, T), **kw)

    base_sel = list(range(n))
    try:
        base_paths = sym_run(base_sel)
    except Exception as e:  # noqa: BLE001
        dv = default_values(tm)
        confirm_crash(rec, "simulate runs", e, lambda: conc_run(dv, base_sel), key=f"{rec.unit}/simulate raises")
        return {}
    rec.paths += len(base_paths)
    variants = []
    for perm in itertools.permutations(range(n)):
        if list(perm) != base_sel:
            variants.append((f"permutation{perm}", list(perm), False))
    for k in range(1, n):
        for sub in itertools.combinations(range(n), k):
            variants.append((f"subset{sub}", list(sub), False))
    variants.append((f"duplicate(0,{n-1},0)", [0, n - 1, 0], False))
    variants.append(("reversed-key-order", base_sel, True))
    if len(base_paths) > 1 and not full:
        # models whose later periods fork: a selection of the transformations in the quick tier
        variants = [v for k, v in enumerate(variants) if k in (0, len(variants) // 3, len(variants) // 2) or v[0].startswith(("duplicate", "reversed"))] + [v for v in variants if v[0].startswith("subset") and len(v[1]) == 1][:1]
    elif len(base_paths) > 1:
        # thorough tier: every second transformation for forking models (each pair of paths is compared)
        variants = [v for k, v in enumerate(variants) if k % 2 == 0 or v[0].startswith(("duplicate", "reversed"))]
    base_cols = [(pc, frame_terms(df)[0]) for pc, df in base_paths]
    periods = [0] if period0_only else list(range(T))
    n_cmp = 0
    for vname, sel, rev in variants:
        try:
            vpaths = sym_run(sel, rev)
        except Exception as e:  # noqa: BLE001
            dv = default_values(tm)
            confirm_crash(rec, f"simulate runs [{vname}]", e, lambda: conc_run(dv, sel, rev), key=f"{rec.unit}/simulate raises/{vname}")
            continue
        rec.paths += len(vpaths)
        m = len(sel)
        for (pcb, cb) in base_cols:
            for pcv, dfv in vpaths:
                cv, _ = frame_terms(dfv)
                joint = assume + list(pcb) + list(pcv)
                if pcb or pcv:
                    r, _m = rec._check(joint, 20000)
                    if r == "unsat":
                        continue  # incompatible pair of paths
                if len(cv["value"]) != T * m:
                    rec.prove(f"rows[{vname}]", False, joint, replay=lambda vals: {"what": "wrong number of rows", "observed": len(cv["value"]), "expected": T * m})
                    continue
                for t in periods:
                    for j, i in enumerate(sel):
                        rb, rv = t * n + i, t * m + j
                        cells = sj.b_all([sj.x_eq(cb[c][rb], cv[c][rv]) for c in cb if c != "_period"])

                        def replay(vals, sel=sel, rev=rev, t=t, i=i, j=j, m=m, vname=vname):
                            vals = {k: v for k, v in vals.items() if k in S.symbols}
                            a = conc_run(vals, base_sel)
                            b = conc_run(vals, sel, rev)
                            for c in a.columns:
                                if not close(float(a[c].iloc[t * n + i]), float(b[c].iloc[t * m + j])):
                                    return {"what": f"agent {i}'s row in period {t} changes when the batch is transformed ({vname})", "column": c, "observed": float(b[c].iloc[t * m + j]), "expected": float(a[c].iloc[t * n + i])}
                            return None

                        rec.prove(f"{vname}[t={t},agent={i}]", cells, joint, replay=replay)
                        n_cmp += 1
    rec.primitives = S.trace.stats
    return {"bounds": {"template": tm.name, "agents": n, "variants": len(variants), "rows_compared": n_cmp}, "symbols": len(S.symbols)}
