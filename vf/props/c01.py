"""C01 - solve() returns the exact backward-induction (Bellman) solution on the grid."""
from __future__ import annotations

import numpy as np
import z3

from .. import symjax as sj
from ..harness import close
from ..refsem import Ref
from .pipeline import abstraction_maps, conc_solve, confirm_crash, default_values, get_function, prove_side_conditions, replace_topdown, subs_of, sym_solve

META = {
    "explanation": "The function returned by get_lcm_function(model, 'solve', jit=.) is executed symbolically (params are z3 reals: "
    "beta, utility tables and coefficients, auxiliary-function, constraint and transition parameters, shock probabilities); the "
    "whole real pipeline runs: process_model, state-choice spaces, spacemap/productmap (JAX's vmap batching rules), "
    "model_functions, next_state, function_representation + map_coordinates, masked max over continuous choices, max/segment_max "
    "over discrete choices, the backward loop. Each entry of each period's value array is compared by z3 with an independent "
    "reference (vf/refsem.py: nested loops over grid states and grid choices, filters, constraints, u + beta*E[V_next] with exact "
    "lookup in discrete and multilinear interpolation/extrapolation in continuous states, -inf when nothing is feasible), through "
    "the documented axis layout. JIT on and off are both executed.",
    "bounds": "templates TA-TL (see vf/templates.py) with grids of 2-5 points (thorough: up to 9), 1-3 periods (thorough up to 5), <=3 "
    "states, <=4 choice variables, <=3 labels; parameters symbolic except where listed per unit; transitions concrete unless the "
    "unit says otherwise",
    "outside": "floating-point rounding; model structures outside the template family; larger grids/horizons; log-grid states "
    "(covered at kernel level by C14/C15)",
    "assumptions": ["template preconditions = the property's 'supported model' conditions (listed per unit in evidence)", "probabilities >= 0"],
    "stubs": [],
}

QUICK = [
    ("TA", dict(T=1, sym_k=True)),
    ("TA", dict(T=1, sym_k=True, lower=True)),
    ("TK", dict(T=2), None, None, (2, 1, 0)),  # next_p declared before next_h, states declared (h, p)
    ("TK", dict(T=2), (1, 0), None, None),
    ("TA", dict(T=2, sym_k=True)),
    ("TA", dict(T=3)),
    ("TA", dict(T=2, nw=3, nc=2, sym_g=True)),
    ("TA", dict(T=2, nw=3, nc=2, sym_g=True, borrow=True)),  # a constraint consuming the output of next_w
    ("TB", dict(T=2)),
    ("TB", dict(T=3, order=1)),
    ("TC", dict(T=2)),
    ("TC", dict(T=3, nw=3, nc=2, order=1)),
    ("TD", dict(T=2)),
    ("TE", dict(T=2)),
    ("TE", dict(T=2, dep=("d", "h"))),
    ("TF", dict(T=3)),
    ("TG", dict(T=2)),
    ("TG", dict(T=2, up=True)),  # two continuous states, next states above the upper grid bounds
    ("TH", dict(T=3)),
    ("TJ", dict(T=2)),
    ("TK", dict(T=2)),
    ("TL", dict(T=2)),
    ("TM", dict(T=2)),  # restricted + unrestricted discrete state + continuous state
    ("TN", dict(T=2)),  # two restricted states with an excluded combination, two unrestricted discrete states
    ("TP", dict(T=2)),  # the admitted restricted-state set changes between periods
    ("TP", dict(T=3)),
    ("TQ", dict(T=2)),
    ("TR", dict(T=2)),  # two filters (state+choice, choice+choice)
]
THOROUGH = QUICK + [
    ("TA", dict(T=4)),
    ("TA", dict(T=2, nw=9, nc=5)),
    ("TA", dict(T=3, nw=9, nc=3)),
    ("TA", dict(T=3, sym_k=True)),
    ("TA", dict(T=2, sym_g=True)),
    ("TA", dict(T=3, nw=3, nc=2, sym_g=True)),
    ("TA", dict(T=2, sym_k=True, sym_g=True, lower=True)),
    ("TA", dict(T=3, sym_g=True, borrow=True)),
    ("TB", dict(T=4)),
    ("TC", dict(T=3)),
    ("TC", dict(T=4, nw=3, nc=2)),
    ("TD", dict(T=3)),
    ("TD", dict(T=2, with_x=False)),
    ("TD", dict(T=2, nw=5)),
    ("TE", dict(T=3)),
    ("TE", dict(T=2, dep=("_period",))),
    ("TE", dict(T=3, dep=("_period", "h"))),
    ("TE", dict(T=2, dep=("d",))),
    ("TF", dict(T=4)),
    ("TG", dict(T=3)),
    ("TG", dict(T=3, up=True)),
    ("TH", dict(T=5)),
    ("TJ", dict(T=3)),
    ("TK", dict(T=3)),
    ("TK", dict(T=3), (1, 0), None, (2, 1, 0)),
    ("TL", dict(T=3)),
    ("TL", dict(T=2, sym_next=True)),
    ("TM", dict(T=3)),
    ("TN", dict(T=3)),
    ("TP", dict(T=4)),
    ("TQ", dict(T=3)),
    # larger horizons / grids
    ("TA", dict(T=6)),
    ("TA", dict(T=2, nw=17, nc=9)),
    ("TA", dict(T=3, nw=9, nc=5, sym_k=True)),
    ("TA", dict(T=3, nw=5, nc=3, sym_g=True)),
    ("TB", dict(T=6)),
    ("TC", dict(T=4)),
    ("TC", dict(T=2, nw=9, nc=5)),
    ("TD", dict(T=4)),
    ("TD", dict(T=3, nw=5)),
    ("TE", dict(T=4)),
    ("TE", dict(T=4, dep=("_period", "d", "h"))),
    ("TF", dict(T=6)),
    ("TG", dict(T=4)),
    ("TG", dict(T=4, up=True)),
    ("TJ", dict(T=4)),
    ("TK", dict(T=4)),
    ("TL", dict(T=4)),
    ("TM", dict(T=4)),
    ("TN", dict(T=4)),
    ("TP", dict(T=6)),
    ("TQ", dict(T=4)),
    ("TA", dict(T=10)),
    ("TA", dict(T=2, nw=33, nc=17)),
    ("TA", dict(T=4, nw=17, nc=9, sym_k=True)),
    ("TB", dict(T=10)),
    ("TC", dict(T=6)),
    ("TC", dict(T=3, nw=17, nc=9)),
    ("TD", dict(T=3, nw=9)),
    ("TE", dict(T=6)),
    ("TG", dict(T=6)),
    ("TK", dict(T=6)),
    ("TM", dict(T=6)),
    ("TN", dict(T=6)),
    ("TQ", dict(T=6)),
]


def spec_name(spec):
    n, kw = spec[0], spec[1]
    base = n + "[" + ",".join(f"{k}={v}" for k, v in kw.items()) + "]"
    if len(spec) > 2:
        base += f"|s={spec[2]}|c={spec[3]}|f={spec[4]}"
    return base


def units(tier):
    specs = QUICK if tier == "quick" else THOROUGH
    return [(f"solve:{spec_name(s)}", "u_solve", {"spec": s}) for s in specs]


def u_solve(rec, spec, jit_too=True):
    from ..templates import build

    try:
        tm, S, params, assume, Vimpl, solve, template = sym_solve(rec, spec, jit=False)
    except Exception as e:  # noqa: BLE001
        tm0 = build(spec)
        confirm_crash(rec, "solve runs", e, lambda: conc_solve(tm0, get_function(tm0.model, "solve", False)[0], default_values(tm0)))
        return {"bounds": {"template": tm0.name}}
    side = list(sj.SIDE)
    ref = Ref(tm.model, params, S, ambient=assume)
    Vref = ref.solve()
    # (iv) jit on
    if jit_too:
        tm2, S2, params2, assume2, Vjit, solve_jit, _ = sym_solve(rec, spec, jit=True)
    else:
        Vjit, solve_jit = None, None
    T = tm.model.n_periods
    cache = {}

    def concrete(vals, which="nojit"):
        key = (which, tuple(sorted((k, str(v)) for k, v in vals.items())))
        if key not in cache:
            cache.clear()
            cache[key] = conc_solve(tm, solve if which == "nojit" else solve_jit, vals)
        return cache[key]

    def mk_replay(t, idx, refterm, which="nojit", full=None):
        def one(vals):
            obs = concrete(vals, which)
            if len(obs) != T or idx is None or len(idx) != obs[t].ndim or any(i >= n for i, n in zip(idx, obs[t].shape)):
                return {"what": "value arrays have the wrong length/shape", "observed": [list(o.shape) for o in obs], "expected": "documented layout"}
            exp = sj.evaluate(refterm, subs_of(S, vals))
            o = float(obs[t][idx])
            if close(o, exp):
                return None
            return {"what": f"V[{t}]{list(idx)} differs from backward induction", "observed": o, "expected": exp, "template": tm.name, "inputs": vals}

        def replay(vals):
            vals = {k: v for k, v in vals.items() if k in S.symbols}
            r = one(vals)
            if r is not None or rec.replay_target is not None:
                return r
            # the solver's model may rely on an abstracted next-period array (see abstraction_maps):
            # also try parameter assignments that satisfy the assumptions
            try:
                for alt in rec.pick_assignments(S.symbols, assume, n=4)[1:]:
                    r = one(alt)
                    if r is not None:
                        return r
            except Exception:  # noqa: BLE001
                pass
            # ... and ask the solver for a counterexample of the COMPOSED claim (no abstraction of the
            # next-period array): its model assigns the parameters only and replays as it stands
            if full is not None:
                try:
                    from ..harness import model_assignment

                    fc = full()
                    r0, mdl = rec._check(list(assume) + [z3.Not(fc)], 30000) if isinstance(fc, z3.ExprRef) else (None, None)
                    if r0 == "sat":
                        return one({k: v for k, v in model_assignment(mdl, S.symbols).items() if k in S.symbols})
                except Exception:  # noqa: BLE001
                    pass
            return None

        return replay

    # (i) list length and documented shapes
    rec.prove("n_periods arrays", len(Vimpl) == T, [], replay=lambda vals: {"what": "wrong number of arrays", "observed": len(Vimpl), "expected": T})
    ok_shapes = True
    for t in range(T):
        shape, index = ref.layout(t)
        good = tuple(Vimpl[t].shape) == shape
        ok_shapes &= good
        rec.prove(f"shape[t={t}]", good, [], replay=lambda vals, t=t, shape=shape: {"what": "array shape differs from documented layout", "observed": list(Vimpl[t].shape), "expected": list(shape)})
    if not ok_shapes:
        return {"bounds": {"template": tm.name}}
    # translator validation: symbolic terms evaluated on chosen inputs == real float run
    flat_terms = [x for t in range(T) for x in Vimpl[t].reshape(-1)]
    rec.validate("solve", flat_terms, lambda vals: [float(x) for v in concrete(vals) for x in v.reshape(-1)], S.symbols, assume)
    # side conditions of the symbolic run
    sj.SIDE[:] = side
    prove_side_conditions(rec, assume)
    # (ii)/(iii) every entry equals the reference; the -inf flag is part of the equality
    n_inf = 0
    n_abs = 0
    for t in reversed(range(T)):
        shape, index = ref.layout(t)
        maps = None
        if t < T - 1:
            # inductive decomposition: period t+1 has been compared entry by entry above
            keys = [(sidx, ref.layout(t + 1)[1](byname)) for sidx, byname in ref.states_in_space(t + 1)]
            maps = abstraction_maps([Vimpl[t + 1][i] for _, i in keys], [Vref[t + 1][s] for s, _ in keys], f"W{t+1}")
        for sidx, byname in ref.states_in_space(t):
            idx = index(byname)
            r = Vref[t][sidx]
            if isinstance(r, sj.XR) or sj.is_ninf_c(r):
                n_inf += 1
            e = Vimpl[t][idx]
            if maps is not None and maps[2]:
                e_a, r_a = replace_topdown(e, maps[0]), replace_topdown(r, maps[1])
                n_abs += 1
            else:
                e_a, r_a = e, r
            full = (lambda e=e, r=r: sj.x_eq(e, r)) if e_a is not e else None
            rec.prove(f"V[{t}]{list(idx)}==bellman", sj.x_eq(e_a, r_a), assume, replay=mk_replay(t, idx, r, full=full))
            # (iv) jit
            if Vjit is None:
                continue
            j = Vjit[t][idx] if tuple(Vjit[t].shape) == shape else None
            if j is None:
                rec.prove(f"V[{t}]{list(idx)} jit shape", False, assume, replay=mk_replay(t, idx, r, "jit"))
            else:
                # the jitted run has its own symbols with the same names -> same z3 constants
                rec.prove(f"V[{t}]{list(idx)} jit==nojit", sj.x_eq(j, Vimpl[t][idx]), assume, replay=mk_replay(t, idx, r, "jit"))
    return {
        "bounds": {"template": tm.name, "T": T, "grids": {k: len(v) for k, v in ref.grid.items()}, "entries_maybe_-inf": n_inf, "entries_checked_as_one_bellman_step_from_arbitrary_V_next": n_abs},
        "symbols": len(S.symbols),
        "assumptions": [str(a) for a in assume][:20],
    }
