"""C02 - simulated decisions are feasible maximisers of the agent's objective."""
from __future__ import annotations

import itertools
from fractions import Fraction

import numpy as np
import z3

from .. import symjax as sj
from ..harness import Conc, close
from ..refsem import Ref
from ..templates import build
from .pipeline import conc_simulate, confirm_crash, default_values, frame_terms, get_function, sym_simulate, sym_vf

META = {
    "explanation": "The function returned by get_lcm_function(model,'simulate') (JIT on) is executed symbolically with *symbolic value "
    "arrays* passed through the public vf_arr_list argument (arbitrary arrays in the documented layout), symbolic params and "
    "agents whose continuous states are symbolic reals (on or off the grid, inside or outside its range; discrete initial states "
    "enumerated). Data-dependent shapes (boolean-mask indexing by the per-agent filter mask, unique()) are handled by forking: the "
    "run is repeated for every satisfiable mask value and each path carries its path condition. For every path, period and "
    "agent z3 decides: reported choices are grid values; all filters and constraints hold at (state, reported choices); the "
    "reported value equals Q(state, reported choices) = u + beta*E[V_next]; and value >= Q(state, c) for every feasible grid "
    "choice c - Q computed by the independent reference. Ties are symbolic, so any maximiser is accepted.",
    "bounds": "templates TA, TB, TC, TD (filtered + unrestricted discrete choice + two continuous choices of unequal size), TG, TH, TM, "
    "TE; 2 agents (thorough 3), T = 2 (thorough 3) periods, path cap 64; later periods are checked from the state terms produced "
    "by the run itself",
    "outside": "floating-point tolerance of the arg-max (the real-number model is exact); more agents/periods/paths; agents without any "
    "feasible choice (value -inf, choices unspecified)",
    "assumptions": ["some grid choice is feasible for the agent in that period", "value arrays finite"],
    "stubs": ["PRNG draws: arbitrary uniform value per key (only used to move stochastic states forward)"],
}

# (template, kwargs, number of agents)
QUICK = [
    (("TA", dict(T=2)), 2),
    (("TA", dict(T=2, lower=True)), 2),  # lower-bound constraint: infeasible choices precede the feasible ones
    (("TB", dict(T=2)), 2),
    (("TC", dict(T=2, nw=3, nc=2)), 2),
    (("TD", dict(T=1, nw=3)), 2),
    (("TD", dict(T=2, nw=3)), 1),
    (("TD", dict(T=1, nw=3, with_x=False)), 3),
    (("TG", dict(T=1)), 2),
    (("TG", dict(T=1), None, (1, 0), None), 2),  # continuous choices declared in non-alphabetical order (x, c)
    (("TD", dict(T=1, nw=3), None, (3, 2, 1, 0), None), 2),  # choices declared x, c, e, r
    (("TH", dict(T=2)), 3),
    (("TM", dict(T=2)), 2),
    (("TE", dict(T=2)), 2),
    (("TP", dict(T=2)), 2),
    (("TQ", dict(T=2)), 2),  # agents with 3 and 1 admissible rows
    (("TQ", dict(T=1)), 4),
    (("TR", dict(T=2)), 2),  # two filters that disagree
]
THOROUGH = QUICK + [
    (("TD", dict(T=2, nw=3)), 2),
    (("TD", dict(T=2, nw=3, with_x=False)), 3),
    (("TC", dict(T=3, nw=3, nc=2)), 2),
    (("TC", dict(T=2)), 3),
    (("TG", dict(T=2)), 2),
    (("TJ", dict(T=2)), 2),
    (("TN", dict(T=2)), 3),
    (("TF", dict(T=3)), 2),
    (("TL", dict(T=2)), 2),
    (("TA", dict(T=3)), 3),
]


def units(tier):
    from .c01 import spec_name

    specs = QUICK if tier == "quick" else THOROUGH
    return [(f"simulate:{spec_name(s)}|agents={n}", "u_sim", {"spec": s, "n": n}) for s, n in specs]


def setup(rec, spec, n, sym_values=True):
    tm = build(tuple(spec))
    S = sj.Session()
    sj.SIDE.clear()
    sj.TAGGING[0] = False
    params = tm.params(S)
    ref = Ref(tm.model, params, S)
    T = tm.model.n_periods
    vf = sym_vf(S, ref, T)
    init = tm.init(S, n)
    assume = tm.assume(S.symbols)
    sj.AMBIENT[:] = []
    rec.symbols = S.symbols
    return tm, S, params, ref, vf, init, assume, T


def row_env(ref, cols, row):
    """state / choice terms of one row"""
    st = {s: cols[s][row] for s in ref.states}
    ch = {c: cols[c][row] for c in ref.choices}
    return st, ch


def filters_term(ref, env, t):
    acc = True
    memo = {}
    for f in ref.filters:
        acc = sj.b_and(acc, ref.eval(f, env, t, memo))
    return acc


def all_choice_terms(ref, st, t, Vnext):
    """[(choice values dict, passes-filters term, feasible term, Q term)] over all grid choices"""
    out = []
    for cidx in itertools.product(*[range(len(ref.grid[c])) for c in ref.choices]):
        ch = {c: ref.grid[c][i] for c, i in zip(ref.choices, cidx)}
        env = {**st, **ch}
        fl = filters_term(ref, env, t)
        if fl is False:
            continue
        memo = {}
        feas = ref.constraints_hold(env, t, memo)
        if feas is False:
            continue
        q = ref.Q(env, t, Vnext, memo)
        out.append((ch, fl, feas, q))
    return out


def concrete_check(ref_c, vals_subs, dfc, row, t, Vnext_c):
    """C02 for one concrete row of a real simulation run; returns discrepancy or None.
    ref_c: Ref whose params/vf are terms; vals_subs: {z3 const: value} to evaluate them"""
    st = {}
    for s in ref_c.states:
        v = dfc[s].iloc[row]
        st[s] = int(v) if not ref_c.is_cont[s] else Fraction(float(v))
    ch_obs = {}
    for c in ref_c.choices:
        v = dfc[c].iloc[row]
        ch_obs[c] = int(v) if not ref_c.is_cont[c] else Fraction(float(v))
    val_obs = float(dfc["value"].iloc[row])
    best, best_c, q_obs, feas_obs, on_grid = None, None, None, False, True
    for c, v in ch_obs.items():
        if v not in ref_c.grid[c]:
            on_grid = False
    for chv, fl, feas, q in all_choice_terms(ref_c, st, t, Vnext_c):
        ok = bool(sj.evaluate(fl, vals_subs)) and bool(sj.evaluate(feas, vals_subs))
        qv = sj.evaluate(q, vals_subs)
        if chv == ch_obs:
            q_obs, feas_obs = qv, ok
        if ok and (best is None or qv > best):
            best, best_c = qv, chv
    if best is None:
        return None  # no feasible choice: outside the property's precondition
    what = None
    if not on_grid:
        what = "reported choice is not a grid value"
    elif not feas_obs:
        what = "reported choice violates a filter or constraint"
    elif not close(val_obs, best):
        what = "reported value is not the maximum over feasible grid choices"
    elif not close(float(q_obs), best):
        what = "reported choice does not attain the maximum"
    if what is None:
        return None
    return {"what": what, "observed": {"choices": {k: float(v) for k, v in ch_obs.items()}, "value": val_obs}, "expected": {"value": float(best), "a maximiser": {k: float(v) for k, v in best_c.items()}}, "state": {k: float(v) for k, v in st.items()}, "period": t}


def state_abstraction(ref, st, t, agent):
    """fresh symbols for the symbolic state terms of a later period (the decision of period t is
    then checked from an arbitrary state); returns (map id->fresh, range constraints)"""
    mp, rng = {}, []
    for s, e in st.items():
        e = sj.force(e)
        if isinstance(e, z3.ExprRef) and e.num_args() > 0:
            if ref.is_cont[s]:
                f = z3.Real(f"state{t}_{agent}_{s}")
            else:
                f = z3.Int(f"state{t}_{agent}_{s}")
                rng.append(z3.And(f >= 0, f < len(ref.grid[s])))
            mp[e.get_id()] = (e, f)
    return mp, rng


def u_sim(rec, spec, n):
    from .pipeline import replace_topdown

    tm, S, params, ref, vf, init, assume, T = setup(rec, spec, n)
    sim_holder = {}

    def conc_run(vals):
        return conc_simulate(tm, sim_holder["sim"], vals, ref, n)

    try:
        paths, sim = sym_simulate(rec, tm, S, params, vf, init, base=assume)
        sim_holder["sim"] = sim
    except Exception as e:  # noqa: BLE001
        sim_holder["sim"] = get_function(tm.model, "simulate", True)[0]
        dv = default_values(tm)
        confirm_crash(rec, "simulate runs", e, lambda: conc_run(dv), key=f"{rec.unit}/simulate raises")
        return {"bounds": {"template": tm.name}}
    vft = [sj.terms(v) for v in vf]
    Vd = [ref.array_to_dict(t, vft[t]) for t in range(T)]

    def check_rows(vals, rows=None):
        vals = {k: v for k, v in vals.items() if k in S.symbols}
        dfc = conc_run(vals)
        subs = {S.symbols[k]: v for k, v in vals.items()}
        for (t, agent) in rows or [(t, a) for t in range(T) for a in range(n)]:
            r = concrete_check(ref, subs, dfc, t * n + agent, t, Vd[t + 1] if t < T - 1 else None)
            if r is not None:
                r["inputs"] = vals
                return r
        return None

    def mk_replay(t, agent, orig):
        def replay(vals):
            r = check_rows(vals, [(t, agent)])
            if r is not None or rec.replay_target is not None:
                return r
            # the query was over an abstracted (arbitrary) period-t state: look for a counterexample
            # of the un-abstracted obligation, then for any violating row on a few other inputs
            pre0, claim0 = orig
            if isinstance(claim0, z3.ExprRef):
                res, mdl = rec._check(pre0 + [z3.Not(claim0)], 60000)
                if res == "sat":
                    from ..harness import model_assignment

                    r = check_rows(model_assignment(mdl, S.symbols), [(t, agent)])
                    if r is not None:
                        return r
            try:
                for alt in rec.pick_assignments(S.symbols, assume, n=4)[1:]:
                    r = check_rows(alt)
                    if r is not None:
                        return r
            except Exception:  # noqa: BLE001
                pass
            return None

        return replay

    # translator validation: value column of the first path against the real run on inputs inside the path
    pc0, df0 = paths[0]
    cols0, _ = frame_terms(df0)
    rec.validate("simulate", list(cols0["value"]), lambda vals: [float(x) for x in conc_run(vals)["value"].values], S.symbols, assume + pc0, n=1)
    seen = set()
    for pi, (pc, df) in enumerate(paths):
        cols, index = frame_terms(df)
        if len(index) != T * n:
            rec.prove(f"rows[path{pi}]", False, assume + pc, replay=lambda vals: {"what": "wrong number of rows", "observed": len(index), "expected": T * n})
            continue
        for t in range(T):
            Vnext = Vd[t + 1] if t < T - 1 else None
            pc_t = pc.upto(t)
            for i in range(n):
                row = t * n + i
                st, ch = row_env(ref, cols, row)
                value = cols["value"][row]
                mp, rng = state_abstraction(ref, st, t, i) if t > 0 else ({}, [])
                cands = all_choice_terms(ref, st, t, Vnext)
                some = sj.b_any([sj.b_and(fl, feas) for (_, fl, feas, _) in cands])
                if some is False:
                    continue
                pre0 = assume + pc_t + ([sj.z(some)] if some is not True else [])
                pre = [replace_topdown(c, mp) for c in pre0] + rng
                tag = f"path{pi},t={t},agent={i}"
                obl = []
                for c in ref.choices:
                    obl.append((f"grid[{c}]", sj.b_any([sj._cmp("eq", ch[c], g) for g in ref.grid[c]])))
                # decomposition over the grid choice combinations c:  reported == c  =>  c is feasible and
                # value == Q(state, c);  c feasible => value >= Q(state, c);  combinations that fail a
                # filter/constraint outright are never reported
                cand_by_key = {tuple(chv[c] for c in ref.choices): (flc, feasc, qc) for chv, flc, feasc, qc in cands}
                for cidx in itertools.product(*[range(len(ref.grid[c])) for c in ref.choices]):
                    cv = tuple(ref.grid[c][k] for c, k in zip(ref.choices, cidx))
                    eqc = sj.b_all([sj._cmp("eq", ch[c], v) for c, v in zip(ref.choices, cv)])
                    label = ",".join(str(float(v)) for v in cv)
                    if cv in cand_by_key:
                        flc, feasc, qc = cand_by_key[cv]
                        ok = sj.b_and(flc, feasc)
                        obl.append((f"reported=={label}=>feasible&value==Q", sj.ite_b(eqc, sj.b_and(ok, sj.x_eq(value, qc)), True)))
                        obl.append((f"value>=Q({label})", sj.ite_b(ok, sj._cmp("ge", value, qc), True)))
                    else:
                        obl.append((f"never-reported({label})", sj.b_not(eqc)))
                for name, claim0 in obl:
                    claim = replace_topdown(claim0, mp) if isinstance(claim0, z3.ExprRef) else claim0
                    key = (name, t, i, claim.sexpr() if isinstance(claim, z3.ExprRef) else str(claim), tuple(sorted(p.sexpr() for p in pre if isinstance(p, z3.ExprRef))))
                    h = hash(key)
                    if h in seen:
                        continue  # identical obligation already decided on a path sharing this prefix
                    seen.add(h)
                    rec.prove(f"{name}[{tag}]", claim, pre, replay=mk_replay(t, i, (pre0, claim0)))
    return {"bounds": {"template": tm.name, "agents": n, "T": T, "paths": len(paths)}, "symbols": len(S.symbols)}
