"""C03 - simulated states follow the model's law of motion."""
from __future__ import annotations

import inspect
from fractions import Fraction

import numpy as np
import z3

from .. import symjax as sj
from ..harness import Conc, close
from .c02 import row_env, setup
from .pipeline import conc_simulate, confirm_crash, default_values, frame_terms, get_function, sym_simulate

META = {
    "explanation": "From symbolic runs of the real simulate function (symbolic params, value arrays, continuous initial states, "
    "uniform draws; all paths): the period-0 state cells are the supplied initial states (term identity); for every consecutive "
    "period pair and agent each deterministic state cell of period t+1 equals the user's transition function evaluated at the "
    "agent's own period-t state, choice and period cells and the params; for a stochastic state the new label is a grid label "
    "and has positive probability in the row of params['shocks'][name] selected by the agent's period-t dependency values, for "
    "all probability arrays with non-negative entries and all uniform values u in [0,1).",
    "bounds": "deterministic: TA, TB, TC, TD, TH, TM, TF, TL with 2-3 agents and T = 2-3; stochastic: TE (dependencies state, choice, "
    "period, in two orders), TK (two stochastic states with different dependency orders) with 2 agents, T = 2 (thorough 3)",
    "outside": "the PRNG itself: a uniform draw is an arbitrary value in [0,1) determined by its key; more agents/periods",
    "assumptions": ["probability entries >= 0, every row has a positive sum", "0 <= u < 1 for every uniform draw"],
    "stubs": ["random_bits + mantissa trick -> 1 + u with a fresh real u per (key, index)"],
}

QUICK = [
    (("TA", dict(T=3)), 2),
    (("TA", dict(T=3, int_init=True)), 2),  # continuous initial states supplied as an integer array
    (("TB", dict(T=2)), 3),
    (("TC", dict(T=2, nw=3, nc=2)), 2),
    (("TD", dict(T=2, nw=3)), 1),
    (("TH", dict(T=3)), 3),
    (("TM", dict(T=2)), 2),
    (("TF", dict(T=3)), 2),
    (("TL", dict(T=2)), 2),
    (("TE", dict(T=2)), 2),
    (("TE", dict(T=2, dep=("d", "h"))), 2),
    (("TK", dict(T=2)), 2),
    (("TP", dict(T=3)), 2),
]
THOROUGH = QUICK + [(("TE", dict(T=3)), 2), (("TK", dict(T=3)), 2), (("TC", dict(T=3, nw=3, nc=2)), 3), (("TD", dict(T=2, nw=3)), 2), (("TN", dict(T=2)), 3), (("TJ", dict(T=3)), 2)]


def units(tier):
    from .c01 import spec_name

    return [(f"law:{spec_name(s)}|agents={n}", "u_law", {"spec": s, "n": n}) for s, n in (QUICK if tier == "quick" else THOROUGH)]


def prob_assumptions(params):
    out = []
    for name, arr in (params.get("shocks") or {}).items():
        P = sj.terms(arr)
        for x in P.reshape(-1):
            if isinstance(x, z3.ExprRef):
                out.append(x >= 0)
        for i in np.ndindex(*P.shape[:-1]):
            out.append(z3.Sum([sj.z(x) for x in P[i]]) > 0)
    return out


def uni_assumptions():
    seen, out = set(), []
    for u in sj.UNI_TERMS:
        if u.get_id() not in seen:
            seen.add(u.get_id())
            out += [u >= 0, u < 1]
    return out


def u_law(rec, spec, n):
    tm, S, params, ref, vf, init, assume, T = setup(rec, spec, n)
    sj.UNI_TERMS.clear()
    holder = {}

    def conc_run(vals, seed=None):
        return conc_simulate(tm, holder["sim"], vals, ref, n, seed=seed)

    try:
        paths, sim = sym_simulate(rec, tm, S, params, vf, init, base=assume + prob_assumptions(params))
        holder["sim"] = sim
    except Exception as e:  # noqa: BLE001
        holder["sim"] = get_function(tm.model, "simulate", True)[0]
        dv = default_values(tm)
        confirm_crash(rec, "simulate runs", e, lambda: conc_run(dv), key=f"{rec.unit}/simulate raises")
        return {}
    assume = assume + prob_assumptions(params) + uni_assumptions()
    init_t = {k: [sj.force(x) for x in sj.terms(v).reshape(-1)] for k, v in init.items()}

    def law_replay(vals):
        """concrete law-of-motion check of real runs (a few seeds for stochastic models)"""
        vals = {k: v for k, v in vals.items() if k in S.symbols}
        subs = {S.symbols[k]: v for k, v in vals.items()}
        for seed in ((None,) if not ref.stoch else (None, 1, 2, 3, 4)):
            dfc = conc_run(vals, seed)
            ic = tm.init(Conc(vals), n)
            for i in range(n):
                for s in ref.states:
                    if not close(float(dfc[s].iloc[i]), float(np.asarray(ic[s])[i])):
                        return {"what": f"period-0 state {s} of agent {i} differs from the initial state", "observed": float(dfc[s].iloc[i]), "expected": float(np.asarray(ic[s])[i])}
            for t in range(T - 1):
                for i in range(n):
                    r0, r1 = t * n + i, (t + 1) * n + i
                    env = {}
                    for v in ref.states + ref.choices:
                        x = dfc[v].iloc[r0]
                        env[v] = Fraction(float(x)) if ref.is_cont[v] else int(x)
                    det, sto = ref.next_states(env, t)
                    for s, e in det.items():
                        ev = sj.evaluate(e, subs)
                        if not close(float(dfc[s].iloc[r1]), ev):
                            return {"what": f"state {s} of agent {i} in period {t+1} is not next_{s}(period-{t} row)", "observed": float(dfc[s].iloc[r1]), "expected": float(ev), "seed": seed, "inputs": vals}
                    for s, nodes in sto:
                        lab = int(dfc[s].iloc[r1])
                        pr = {k: sj.evaluate(p, subs) for k, p in nodes}
                        if lab not in pr or not pr[lab] > 0:
                            return {"what": f"stochastic state {s} of agent {i} moved to label {lab} which has probability zero in the selected row", "observed": lab, "expected": {int(k): float(v) for k, v in pr.items()}, "seed": seed, "inputs": vals}
        return None

    for pi, (pc, df) in enumerate(paths):
        cols, index = frame_terms(df)
        if len(index) != T * n:
            rec.prove(f"rows[path{pi}]", False, assume + list(pc), replay=law_replay)
            continue
        for i in range(n):
            for s in ref.states:
                rec.prove(f"initial[{s}][path{pi},agent={i}]", sj._cmp("eq", cols[s][i], init_t[s][i]), assume + pc.upto(0), replay=law_replay)
        for t in range(T - 1):
            pre = assume + pc.upto(t + 1)
            for i in range(n):
                r0, r1 = t * n + i, (t + 1) * n + i
                st, ch = row_env(ref, cols, r0)
                env = {**st, **ch}
                det, sto = ref.next_states(env, t)
                for s, e in det.items():
                    rec.prove(f"next[{s}][path{pi},t={t},agent={i}]", sj._cmp("eq", cols[s][r1], e), pre, replay=law_replay)
                for s, nodes in sto:
                    L = cols[s][r1]
                    nlab = len(ref.grid[s])
                    rec.prove(f"label-in-range[{s}][path{pi},t={t},agent={i}]", sj.b_and(sj._cmp("ge", L, 0), sj._cmp("lt", L, nlab)), pre, replay=law_replay)
                    psel = sj.sym_index(lambda k: nodes[k][1], nlab, L)
                    rec.prove(f"positive-probability[{s}][path{pi},t={t},agent={i}]", sj._cmp("gt", psel, 0), pre, replay=law_replay)
    return {"bounds": {"template": tm.name, "agents": n, "T": T, "paths": len(paths), "uniform_draws": len({u.get_id() for u in sj.UNI_TERMS})}, "symbols": len(S.symbols)}
