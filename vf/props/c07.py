"""C07 - the parameter template is complete and parameters are routed by function name."""
from __future__ import annotations

import inspect
import itertools

import numpy as np

from .. import symjax as sj
from ..templates import build
from . import c01
from .pipeline import get_function

META = {
    "explanation": "(i) CrossHair on the real _create_function_params with a stand-in model whose functions come from a pool and whose "
    "variable roles (state / choice / neither) and function set are symbolic flags: the listed arguments are exactly those that "
    "are not a state, a choice, a model function or the period. (ii) for every template (and every order of up to three "
    "dependencies of a stochastic transition) the template returned next to the generated function has exactly the keys beta + one "
    "per model function (+ shocks), the right free arguments per function, and shock arrays whose leading dimensions are the "
    "dependency sizes in signature order (n_periods for _period) and whose last dimension is the number of labels. (iii) routing: "
    "the real solve function is executed symbolically on templates in which utility, an auxiliary function, a transition and a "
    "constraint all have a parameter of the same name bound to different symbols, and on stochastic templates whose probability "
    "arrays have a distinct symbol per entry and dependencies in several signature orders; every value entry must equal the "
    "reference in which each function receives the values stored under its own name, weights are indexed in signature order and "
    "beta multiplies the continuation exactly once per period (z3, as C01).",
    "bounds": "CrossHair: a real Model object, 3 pooled variables x 3 roles, 6 pooled functions (one consumes the output of a transition function), timeout 200 s; structure: all templates of vf/templates.py, "
    "all orders of 1-3 dependencies out of (state, choice, period); routing: TL (also with a symbolic transition parameter), TK, TE in 4 "
    "dependency orders, TA, T = 2-3",
    "outside": "models outside the template family",
    "assumptions": ["as C01"],
    "stubs": [],
}

STRUCT = [("TA", dict(T=2)), ("TA", dict(T=2, lower=True, borrow=True)), ("TP", dict(T=2)), ("TQ", dict(T=2)), ("TB", dict(T=2)), ("TC", dict(T=2)), ("TD", dict(T=2)), ("TF", dict(T=3)), ("TG", dict(T=2)), ("TH", dict(T=3)), ("TJ", dict(T=2)), ("TK", dict(T=2)), ("TK", dict(T=3)), ("TL", dict(T=2)), ("TM", dict(T=2)), ("TN", dict(T=2))]
ROUTING = [("TL", dict(T=2)), ("TL", dict(T=3)), ("TL", dict(T=2, sym_next=True)), ("TK", dict(T=2)), ("TK", dict(T=3)), ("TA", dict(T=2, sym_k=True, sym_g=True, nw=3, nc=2)), ("TA", dict(T=2, sym_g=True, nw=3, nc=2, borrow=True))]


def dep_orders():
    out = []
    for k in (1, 2, 3):
        for dep in itertools.permutations(("h", "d", "_period"), k):
            out.append(dep)
    return out


def units(tier):
    out = [("crosshair[_create_function_params]", "u_crosshair", {"timeout": 200 if tier == "quick" else 400})]
    out.append(("template-structure", "u_structure", {}))
    for spec in ROUTING:
        out.append((f"routing:{c01.spec_name(spec)}", "u_routing", {"spec": spec}))
    deps = dep_orders()
    if tier == "quick":
        deps = [("h", "d", "_period"), ("_period", "d", "h"), ("d", "h"), ("_period",)]
    for dep in deps:
        out.append((f"routing:TE[dep={','.join(dep)}]", "u_routing", {"spec": ("TE", dict(T=2, dep=dep))}))
    return out


def u_crosshair(rec, timeout):
    from ..crosshair_run import run_crosshair

    run_crosshair(rec, "/verif/ch/c07_params.py", timeout)
    return {"bounds": {"per_condition_timeout_s": timeout}}


def expected_template(model):
    """from the user-facing model only"""
    funcs = model.functions
    known = set(funcs) | set(model.states) | set(model.choices) | {"_period"}
    exp = {"beta": ()}
    for name, f in funcs.items():
        exp[name] = sorted(a for a in inspect.signature(f).parameters if a not in known)
    shocks = {}
    for s in model.states:
        f = funcs["next_" + s]
        if hasattr(f, "_stochastic_info"):
            dims = []
            for a in inspect.signature(f).parameters:
                if a == "_period":
                    dims.append(model.n_periods)
                else:
                    g = {**model.states, **model.choices}[a]
                    dims.append(len(np.asarray(g.to_jax())))
            dims.append(len(np.asarray(model.states[s].to_jax())))
            shocks[s] = tuple(dims)
    return exp, shocks


def u_structure(rec):
    specs = list(STRUCT) + [("TE", dict(T=T, dep=dep)) for dep in dep_orders() for T in (2, 3)]
    for spec in specs:
        tm = build(spec)
        for target in ("solve", "simulate"):
            _f, tmpl = get_function(tm.model, target, True)
            exp, shocks = expected_template(tm.model)
            name = f"{c01.spec_name(spec)}/{target}"
            keys_ok = set(tmpl) == set(exp) | ({"shocks"} if shocks else set())
            per_fn = all(isinstance(tmpl.get(k), dict) and sorted(tmpl[k]) == exp[k] for k in exp if k != "beta")
            sh_ok = (not shocks and "shocks" not in tmpl) or (set(tmpl.get("shocks", {})) == set(shocks) and all(tuple(np.shape(tmpl["shocks"][k])) == shocks[k] for k in shocks))
            obs = {k: (sorted(v) if isinstance(v, dict) and k != "shocks" else ({kk: list(np.shape(vv)) for kk, vv in v.items()} if k == "shocks" else "scalar")) for k, v in tmpl.items()}
            det = {"what": "parameter template differs from the documented structure", "observed": obs, "expected": {**{k: v for k, v in exp.items()}, "shocks": {k: list(v) for k, v in shocks.items()}}, "inputs": {}}
            if keys_ok and per_fn and sh_ok:
                rec.obligations.append({"name": name, "unit": rec.unit, "verdict": "const"})
            else:
                rec.violation(name, det, key=f"{rec.unit}/{name}")
    return {"bounds": {"templates": len(specs)}}


def u_routing(rec, spec):
    return c01.u_solve(rec, tuple(spec) if not isinstance(spec[1], dict) else (spec[0], {k: (tuple(v) if isinstance(v, list) else v) for k, v in spec[1].items()}), jit_too=False)
