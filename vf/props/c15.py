"""C15 - interpolation kernel and grid coordinates are exact inverses of the grids."""
from __future__ import annotations

import itertools
from fractions import Fraction

import numpy as np
import z3

from .. import symjax as sj
from ..harness import Conc, close, model_assignment
from . import axioms

META = {
    "explanation": "lcm.ndimage.map_coordinates, grid_helpers.get_linspace_coordinate/get_logspace_coordinate and "
    "grid_helpers.linspace/logspace are executed symbolically (array entries, coordinates, values, grid bounds are z3 reals); "
    "each obligation compares the resulting term with the closed-form specification (multilinear blend of the 2^rank corners of "
    "the cell, linear continuation outside; coordinate(node_i)=i; monotone; interpolation of the grid at coordinate(v) gives v), "
    "one query per interpolation cell.",
    "bounds": "ranks 1-4; shapes listed per unit (quick: up to 5 points per axis and 16 corners; thorough: up to 9 points, 3x3x3, "
    "3x2x2x2); batched coordinates of length 2-3; linear grids with symbolic start<stop and n in {2,3,5,9}(+17,33 thorough; n-1 must be a power of two so that the float construction of the grid is exact); log grids "
    "with symbolic 0<start<stop, n in {2,3,5} (thorough +9,17), values inside the range, replays only for bounds separated by a relative gap > 1e-6; exp/log are uninterpreted functions with instantiated true axioms",
    "outside": "floating-point rounding of floor() at cell borders and of the grid construction; shapes beyond the listed ones; "
    "log grids outside [start, stop]",
    "assumptions": ["start < stop (and start > 0 for log grids) as guaranteed by the grid validators", "array entries and coordinates finite"],
    "stubs": ["exp/log: uninterpreted functions + instantiated axioms (monotone, exp(log x)=x, log(exp x)=x, exp>0)"],
}


def units(tier):
    shapes = [(2,), (3,), (5,), (2, 2), (3, 3), (2, 3), (4, 2), (2, 2, 2), (3, 2, 2), (2, 2, 2, 2)]
    if tier == "thorough":
        shapes += [(9,), (5, 5), (2, 5), (3, 3, 3), (2, 3, 4), (3, 2, 2, 2), (4, 4)]
    out = [(f"map_coordinates{list(s)}", "u_map_coordinates", {"shape": s}) for s in shapes]
    out += [(f"map_coordinates_batched{list(s)}x{m}", "u_map_coordinates", {"shape": s, "batch": m}) for s, m in [((3,), 3), ((2, 3), 2)]]
    ns = [2, 3, 5, 9] + ([17, 33] if tier == "thorough" else [])  # n-1 a power of two: jnp.linspace is then exact in floats (DESIGN 5.4)
    out += [(f"linspace_coordinate[n={n}]", "u_linspace_coord", {"n": n}) for n in ns]
    out += [("linspace_coordinate[n symbolic]", "u_linspace_coord_symn", {})]
    out += [(f"logspace_coordinate[n={n}]", "u_logspace_coord", {"n": n}) for n in ([2, 3, 5] if tier == "quick" else [2, 3, 5, 9, 17])]  # n-1 a power of two (see above)
    return out


# ----------------------------------------------------------------------------------
def cells(shape):
    return itertools.product(*[range(max(n - 1, 1)) for n in shape])


def cell_assume(xs, cell, shape):
    pre = []
    for d, k in enumerate(cell):
        n = shape[d]
        if k > 0:
            pre.append(xs[d] >= k)
        if k < n - 2:
            pre.append(xs[d] < k + 1)
    return pre


def blend(A, xs, cell):
    """textbook multilinear blend of the 2^rank corners of `cell` (weights may leave [0,1])"""
    rank = len(cell)
    spec = 0
    for corner in itertools.product((0, 1), repeat=rank):
        w = 1
        for d, (k, c) in enumerate(zip(cell, corner)):
            t = xs[d] - k
            w = w * (t if c else (1 - t))
        spec = spec + w * A[tuple(k + c for k, c in zip(cell, corner))]
    return spec


def blend_exact(A, xs, shape):
    """same, on exact rationals, locating the cell by clip(floor(x))"""
    import math

    cell = tuple(min(max(math.floor(x), 0), n - 2) for x, n in zip(xs, shape))
    return blend(A, xs, cell)


def u_map_coordinates(rec, shape, batch=None):
    from lcm.ndimage import map_coordinates

    S = sj.Session()
    rank = len(shape)
    A = S.real("A", shape)
    if batch is None:
        X = [S.real(f"x{d}") for d in range(rank)]
    else:
        X = [S.real(f"x{d}", (batch,)) for d in range(rank)]
    out = S.run(map_coordinates, A, X)
    rec.primitives = S.trace.stats
    rec.symbols = S.symbols
    At = sj.terms(A)
    outs = sj.terms(out).reshape(-1)
    m = 1 if batch is None else batch

    def concrete(vals):
        C = Conc(vals)
        Ac = C.real("A", shape)
        Xc = [C.real(f"x{d}") if batch is None else C.real(f"x{d}", (batch,)) for d in range(rank)]
        return np.asarray(map_coordinates(Ac, Xc)).reshape(-1)

    rec.validate("map_coordinates", list(outs), lambda v: list(concrete(v)), S.symbols)

    for j in range(m):
        xs = [sj.z(sj.terms(x).reshape(-1)[j]) for x in X]
        impl = sj.z(sj.force(outs[j]))

        def replay(vals, j=j):
            obs = float(concrete(vals)[j])
            Ae = np.empty(shape, dtype=object)
            for idx in np.ndindex(*shape):
                Ae[idx] = Fraction(vals["A_" + "_".join(map(str, idx))])
            xe = [Fraction(vals[f"x{d}"] if batch is None else vals[f"x{d}_{j}"]) for d in range(rank)]
            exp = blend_exact(Ae, xe, shape)
            if close(obs, exp):
                return None
            return {"what": "map_coordinates differs from the multilinear blend", "inputs": vals, "observed": obs, "expected": exp, "shape": list(shape), "batch": batch, "j": j}

        for cell in cells(shape):
            pre = cell_assume(xs, cell, shape)
            spec = blend(At, xs, cell)
            rec.prove(f"blend[out={j},cell={cell}]", impl == spec, pre, replay=replay)
        # integer coordinates return the entries (all nodes)
        if batch is None:
            for node in np.ndindex(*shape):
                pre = [xs[d] == node[d] for d in range(rank)]
                rec.prove(f"node{node}", impl == At[node], pre, replay=replay)
    return {"bounds": {"shape": list(shape), "batch": batch}, "symbols": len(S.symbols)}


# ----------------------------------------------------------------------------------
# linear grids
# ----------------------------------------------------------------------------------
def _lin_outputs(S_or_C, n, mode):
    """[grid nodes..., coord(nodes)..., coord(v1), coord(v2), interp(grid, coord(v1))]"""
    from lcm import grid_helpers as gh
    from lcm.ndimage import map_coordinates
    import jax.numpy as jnp

    start, stop, v1, v2 = (S_or_C.real(k) for k in ("start", "stop", "v1", "v2"))

    def prog(start, stop, v1, v2):
        grid = gh.linspace(start, stop, n)
        cn = [gh.get_linspace_coordinate(grid[i], start, stop, n) for i in range(n)]
        c1 = gh.get_linspace_coordinate(v1, start, stop, n)
        c2 = gh.get_linspace_coordinate(v2, start, stop, n)
        back = map_coordinates(grid, [c1])
        return [grid[i] for i in range(n)] + cn + [c1, c2, back]

    return S_or_C.run(prog, start, stop, v1, v2)


def _lin_concrete(vals, n):
    return [float(np.asarray(x)) for x in _lin_outputs(Conc(vals), n, "c")]


def u_linspace_coord(rec, n):
    S = sj.Session()
    outs = [sj.scalar(o) for o in _lin_outputs(S, n, "s")]
    rec.primitives = S.trace.stats
    rec.symbols = S.symbols
    start, stop, v1, v2 = (S.symbols[k] for k in ("start", "stop", "v1", "v2"))
    pre = [start < stop]
    grid, cn, c1, c2, back = outs[:n], outs[n : 2 * n], outs[2 * n], outs[2 * n + 1], outs[2 * n + 2]
    rec.validate("linspace", outs, lambda v: _lin_concrete(v, n), S.symbols, pre)

    def mk_replay(index, expected_fn):
        def replay(vals):
            obs = _lin_concrete(vals, n)[index]
            exp = expected_fn(vals)
            if close(obs, exp):
                return None
            return {"kind": "linspace", "n": n, "index": index, "inputs": vals, "observed": obs, "expected": exp}

        return replay

    for i in range(n):
        ideal = lambda vals, i=i: vals["start"] + Fraction(i, n - 1) * (vals["stop"] - vals["start"])
        rec.prove(f"node[{i}] is start+i*step", sj.z(grid[i]) == start + sj.z(Fraction(i, n - 1)) * (stop - start), pre, replay=mk_replay(i, ideal))
        rec.prove(f"coordinate(node[{i}]) == {i}", sj.zr(cn[i]) == i, pre, replay=mk_replay(n + i, lambda vals, i=i: Fraction(i)))
    # strictly increasing in the value
    def rp_mono(vals):
        obs = _lin_concrete(vals, n)
        o1, o2 = obs[2 * n], obs[2 * n + 1]
        # claim: v1 < v2 => c1 < c2 (floats: allow equality only if v1,v2 are within rounding distance)
        if vals["v1"] < vals["v2"] and not (o1 < o2) and not close(float(vals["v1"]), vals["v2"], rel=1e-12):
            return {"kind": "linspace", "what": "coordinate not strictly increasing", "observed": [o1, o2], "expected": "c1 < c2", "n": n}
        if vals["v1"] != vals["v2"] and o1 == o2 and not close(float(vals["v1"]), vals["v2"], rel=1e-12):
            return {"kind": "linspace", "what": "coordinate not injective", "observed": [o1, o2], "expected": "c1 != c2", "n": n}
        return None

    rec.prove("coordinate strictly increasing", sj.z(c1) < sj.z(c2), pre + [v1 < v2], replay=rp_mono)
    rec.prove("coordinate injective (contrapositive)", sj.z(c1) != sj.z(c2), pre + [v1 != v2], replay=rp_mono)
    # interpolating the grid at coordinate(v) returns v (every cell, incl. both extrapolation regions)
    c1z = sj.z(c1)
    for k in range(n - 1):
        cellpre = list(pre)
        if k > 0:
            cellpre.append(c1z >= k)
        if k < n - 2:
            cellpre.append(c1z < k + 1)
        rec.prove(f"interp(grid, coordinate(v)) == v [cell {k}]", sj.z(back) == v1, cellpre, replay=mk_replay(2 * n + 2, lambda vals: vals["v1"]))
    return {"bounds": {"n_points": n, "start": "symbolic", "stop": "symbolic"}, "symbols": len(S.symbols)}


def u_linspace_coord_symn(rec):
    """get_linspace_coordinate with a symbolic number of points n >= 2 and symbolic node index"""
    from lcm import grid_helpers as gh

    S = sj.Session()
    start, stop, v1, v2 = (S.real(k) for k in ("start", "stop", "v1", "v2"))
    n = S.int("n")
    i = S.int("i")

    def prog(start, stop, v1, v2, n, i):
        node = start + i * ((stop - start) / (n - 1))  # the ideal i-th node of an n-point linear grid
        return [gh.get_linspace_coordinate(x, start, stop, n) for x in (node, v1, v2)]

    ci, c1, c2 = [sj.z(sj.scalar(o)) for o in S.run(prog, start, stop, v1, v2, n, i)]
    rec.primitives = S.trace.stats
    sy = rec.symbols = S.symbols

    def rp(vals):
        C = Conc(vals)
        obs = [float(np.asarray(o)) for o in prog(C.real("start"), C.real("stop"), C.real("v1"), C.real("v2"), int(vals["n"]), int(vals["i"]))]
        if 0 <= vals["i"] <= vals["n"] - 1 and not close(obs[0], vals["i"]):
            return {"what": "coordinate of ideal node i is not i", "observed": obs[0], "expected": vals["i"]}
        if vals["v1"] < vals["v2"] and not obs[1] < obs[2] and not close(float(vals["v1"]), vals["v2"], rel=1e-12):
            return {"what": "coordinate not increasing", "observed": obs[1:], "expected": "c1 < c2"}
        return None

    pre = [sy["start"] < sy["stop"], sy["n"] >= 2]
    rec.prove("coordinate(ideal node i) == i, symbolic n,i", ci == z3.ToReal(sy["i"]), pre + [sy["i"] >= 0, sy["i"] <= sy["n"] - 1], replay=rp)
    rec.prove("strictly increasing, symbolic n", c1 < c2, pre + [sy["v1"] < sy["v2"]], replay=rp)
    return {"bounds": {"n_points": "symbolic >= 2"}, "symbols": len(S.symbols)}


# ----------------------------------------------------------------------------------
# log grids (inside the range), exp/log axiomatised
# ----------------------------------------------------------------------------------
def _log_outputs(S_or_C, n):
    from lcm import grid_helpers as gh
    from lcm.ndimage import map_coordinates

    start, stop, v1, v2 = (S_or_C.real(k) for k in ("start", "stop", "v1", "v2"))

    def prog(start, stop, v1, v2):
        grid = gh.logspace(start, stop, n)
        cn = [gh.get_logspace_coordinate(grid[i], start, stop, n) for i in range(n)]
        c1 = gh.get_logspace_coordinate(v1, start, stop, n)
        c2 = gh.get_logspace_coordinate(v2, start, stop, n)
        back = map_coordinates(grid, [c1])
        return [grid[i] for i in range(n)] + cn + [c1, c2, back]

    return S_or_C.run(prog, start, stop, v1, v2)


def _log_concrete(vals, n):
    return [float(np.asarray(x)) for x in _log_outputs(Conc(vals), n)]


def u_logspace_coord(rec, n):
    S = sj.Session()
    outs = [sj.scalar(o) for o in _log_outputs(S, n)]
    rec.primitives = S.trace.stats
    rec.symbols = S.symbols
    start, stop, v1, v2 = (S.symbols[k] for k in ("start", "stop", "v1", "v2"))
    pre = [start > 0, start < stop]
    grid, cn, c1, c2, back = outs[:n], outs[n : 2 * n], outs[2 * n], outs[2 * n + 1], outs[2 * n + 2]
    EXP, LOG = sj.UF["exp"], sj.UF["log"]
    ls, lt = LOG(start), LOG(stop)
    step = (lt - ls) / (n - 1)
    allterms = [sj.z(t) for t in outs]

    # translator validation is done in floats with a tolerance (exp/log are real libm calls there)
    def check_tv():
        import math

        for vals in ({"start": Fraction(1), "stop": Fraction(16), "v1": Fraction(3), "v2": Fraction(9)}, {"start": Fraction(1, 2), "stop": Fraction(8), "v1": Fraction(1, 2), "v2": Fraction(8)}):
            obs = _log_concrete(vals, n)
            lsf, ltf = math.log(vals["start"]), math.log(vals["stop"])
            for i in range(n):
                e = math.exp(lsf + i * (ltf - lsf) / (n - 1))
                if abs(obs[i] - e) > 1e-9 * max(1, abs(e)):
                    from ..harness import HarnessError

                    raise HarnessError(f"logspace node {i}: {obs[i]} vs {e}")
                rec.tv_points += 1

    check_tv()

    def ax_for(*relevant):
        # axioms are instantiated only on the exp/log applications of the terms that matter
        # for the obligation at hand (plus log(start), log(stop))
        return axioms.explog_axioms([sj.z(t) for t in relevant] + [ls, lt], start=start, stop=stop)

    def separated(vals):
        # replays run in floats: bounds that coincide after rounding (relative gap < 1e-6) give 0/0 there -
        # floating-point rounding is outside the claim, such a model counts as not reproduced
        a, b = float(vals["start"]), float(vals["stop"])
        return 0 < a < b and (b - a) > 1e-6 * b

    def mk_replay(index, expected_fn):
        def replay(vals):
            if not separated(vals):
                return None
            try:
                obs = _log_concrete(vals, n)[index]
                exp = expected_fn(vals)
            except (ValueError, ZeroDivisionError, OverflowError):
                return None
            if close(obs, exp, rel=1e-6):
                return None
            return {"kind": "logspace", "n": n, "index": index, "inputs": vals, "observed": obs, "expected": exp}

        return replay

    import math

    # nodes: grid[i] = exp(log start + i*step); first == start, last == stop, increasing
    for i in range(n):
        rec.prove(
            f"node[{i}] == exp(log(start)+i*step)",
            sj.z(grid[i]) == EXP(ls + i * step),
            pre + ax_for(grid[i], EXP(ls + i * step)),
            replay=mk_replay(i, lambda vals, i=i: math.exp(math.log(vals["start"]) + i * (math.log(vals["stop"]) - math.log(vals["start"])) / (n - 1))),
        )
    rec.prove("node[0] == start", sj.z(grid[0]) == start, pre + ax_for(grid[0]), replay=mk_replay(0, lambda vals: vals["start"]))
    rec.prove("node[n-1] == stop", sj.z(grid[n - 1]) == stop, pre + ax_for(grid[n - 1]), replay=mk_replay(n - 1, lambda vals: vals["stop"]))
    for i in range(n - 1):
        rec.prove(
            f"node[{i}] < node[{i+1}]",
            sj.z(grid[i]) < sj.z(grid[i + 1]),
            pre + ax_for(grid[i], grid[i + 1]),
            replay=lambda vals, i=i: (lambda o: None if o[i] < o[i + 1] else {"kind": "logspace", "what": "nodes not increasing", "observed": o[: n], "expected": "increasing"})(_log_concrete(vals, n)) if separated(vals) else None,
        )
    for i in range(n):
        rec.prove(f"coordinate(node[{i}]) == {i}", sj.zr(cn[i]) == i, pre + ax_for(cn[i]), replay=mk_replay(n + i, lambda vals, i=i: Fraction(i)))
    def rp_pred(vals):
        # float re-check of monotonicity / range of the coordinate for values inside [start, stop]
        if not (separated(vals) and vals["start"] <= vals["v1"] <= vals["stop"] and vals["start"] <= vals["v2"] <= vals["stop"]):
            return None
        obs = _log_concrete(vals, n)
        o1, o2 = obs[2 * n], obs[2 * n + 1]
        if not (-1e-9 <= o1 <= n - 1 + 1e-9):
            return {"kind": "logspace", "what": "coordinate outside [0, n-1] for a value inside the range", "observed": o1, "expected": f"in [0,{n-1}]", "n": n}
        if vals["v1"] < vals["v2"] and not o1 < o2 and not close(float(vals["v1"]), vals["v2"], rel=1e-9):
            return {"kind": "logspace", "what": "coordinate not strictly increasing", "observed": [o1, o2], "expected": "c1 < c2", "n": n}
        return None

    # inside the range, per cell of v1 (cells in log space: log v1 in [ls + k step, ls + (k+1) step) )
    inside = [v1 >= start, v1 <= stop, v2 >= start, v2 <= stop]
    c1z, c2z, backz = sj.z(c1), sj.z(c2), sj.z(back)
    for k in range(n - 1):
        lo, hi = EXP(ls + k * step), EXP(ls + (k + 1) * step)
        cell = [v1 >= lo, v1 < hi] if k < n - 2 else [v1 >= lo, v1 <= hi]
        ax = pre + inside + ax_for(lo, hi, c1) + cell
        rec.prove(f"coordinate(v) in [{k},{k+1}] for v in cell {k}", z3.And(c1z >= k, c1z <= k + 1), ax, replay=rp_pred)
        rec.prove(f"interp(grid, coordinate(v)) == v [cell {k}]", backz == v1, pre + inside + ax_for(lo, hi, c1, back) + cell, replay=mk_replay(2 * n + 2, lambda vals: vals["v1"]))
        for k2 in range(k, n - 1):
            lo2, hi2 = EXP(ls + k2 * step), EXP(ls + (k2 + 1) * step)
            cell2 = [v2 >= lo2, v2 < hi2] if k2 < n - 2 else [v2 >= lo2, v2 <= hi2]
            rec.prove(
                f"coordinate strictly increasing [cells {k},{k2}]",
                c1z < c2z,
                pre + inside + cell + ax_for(lo, hi, c1, lo2, hi2, c2) + cell2 + [v1 < v2],
                replay=rp_pred,
            )
    return {"bounds": {"n_points": n, "start": "symbolic > 0", "stop": "symbolic", "values": "inside [start, stop]"}, "symbols": len(S.symbols)}
