"""C20 - extreme-value aggregation of choice values is an exact, stable log-sum-exp."""
from __future__ import annotations

import itertools
import math

import numpy as np
import z3

from .. import symjax as sj
from ..harness import Conc, close
from . import axioms
from .c18 import compositions

META = {
    "explanation": "discrete_problem._calculate_emax_extreme_value_shocks (dense layout, via jax.scipy.special.logsumexp) and "
    "_segment_logsumexp / _segment_extreme_value_emax_over_first_axis (segment layout) are executed symbolically with symbolic "
    "values and symbolic scale s>0; exp/log are uninterpreted functions with instantiated true axioms (monotone, exp(x)=exp(x-y)exp(y), "
    "log(ab)=log a+log b, log(exp x)=x, log 1=0), Ackermannised to pure real arithmetic. Decided per output element: (i) equals "
    "s*log(sum exp(v/s)); (ii) stability: every argument of exp is <= 0 and one is 0, the argument of log is in [1,n] - so nothing can "
    "overflow whatever the magnitude of the inputs; (iii) max <= result <= max + s*log n; (iv) adding c to all values adds c; "
    "(v) |result - max| <= s*log n, which gives the s->0 limit.",
    "bounds": "dense: shapes (2,), (3,), (2,2), (2,3) with every non-empty subset of axes (thorough: + (4,), (3,3), (2,2,2)); segments: every sorted "
    "segmentation of <= 4 rows (thorough 5), trailing shapes () and (2,); scale symbolic > 0; values arbitrary reals",
    "outside": "floating-point overflow of v/s itself for tiny s; float rounding; the limit statement is implied by (v) but a limit is "
    "not an SMT statement",
    "assumptions": ["scale > 0", "values finite"],
    "stubs": ["exp/log: uninterpreted functions + instantiated axioms"],
}


def units(tier):
    shapes = [(2,), (3,), (2, 2), (2, 3)]
    if tier == "thorough":
        shapes += [(4,), (2, 2, 2)]
    out = []
    for s in shapes:
        for k in range(1, len(s) + 1):
            for axes in itertools.combinations(range(len(s)), k):
                out.append((f"dense{list(s)}axes{list(axes)}", "u_dense", {"shape": s, "axes": axes}))
    nmax = 4 if tier == "quick" else 5
    for n in range(1, nmax + 1):
        for comp in compositions(n):
            out.append((f"segments{list(comp)}", "u_segment", {"comp": comp, "trailing": ()}))
    out.append(("segments[2, 1]x(2,)", "u_segment", {"comp": (2, 1), "trailing": (2,)}))
    out.append(("dense+segments (2 rows x 2)", "u_both", {}))
    return out


EXP, LOG = sj.UF["exp"], sj.UF["log"]


def subst_div(term, vs, s, xs):
    """replace every v_i / s by the fresh x_i"""
    return z3.substitute(term, *[(v / s, x) for v, x in zip(vs, xs)])


def check_group(rec, tag, impl, impl_shift, vs, s, c, group, concrete, concrete_shift):
    """obligations for one output element aggregating the values `group` (list of z3 reals)"""
    n = len(group)
    xs = [z3.Real("x!" + str(v)) for v in group]
    impl_x = subst_div(impl, group, s, xs)
    base = [s > 0]
    logn = LOG(z3.RealVal(n))
    one = LOG(z3.RealVal(1))
    sumexp = z3.Sum([EXP(x) for x in xs]) if n > 1 else EXP(xs[0])
    spec = s * LOG(sumexp)
    mx = xs[0]
    for x in xs[1:]:
        mx = z3.If(mx >= x, mx, x)
    apps = axioms.collect_apps([impl_x])
    logs_impl = apps["log"]
    exps_impl = apps["exp"]

    rec.symbols = {**rec.symbols, **{str(x): x for x in xs}}

    def rp(kind):
        def replay(vals):
            sv = float(vals["s"])
            if not sv > 0:
                return None
            vals = dict(vals)
            for v, x in zip(group, xs):  # the query is over x_i = v_i / s
                vals[str(v)] = vals.get(str(x), 0) * vals["s"]
            try:
                if kind == "stability":
                    # finite inputs of large magnitude must give a finite result
                    big = dict(vals)
                    scale = 1e6 / max(1.0, max(abs(float(vals[str(v)])) for v in group))
                    for v in group:
                        big[str(v)] = float(vals[str(v)]) * scale
                    for sgn in (1.0, -1.0):
                        b2 = {k: (sgn * val if k in {str(v) for v in group} else val) for k, val in big.items()}
                        b2["s"] = min(sv, 1.0)
                        o = concrete(b2)
                        if not math.isfinite(o):
                            return {"what": "aggregate is not finite for finite inputs of magnitude 1e6", "observed": o, "expected": "finite", "inputs": b2}
                    return None
                obs = concrete(vals)
                g = [float(vals[str(v)]) for v in group]
                m = max(g)
                exp_ = m + sv * math.log(sum(math.exp((x - m) / sv) for x in g))
                if kind == "shift":
                    obs2 = concrete_shift(vals)
                    if close(obs2, obs + float(vals["c"]), rel=1e-6):
                        return None
                    return {"what": "adding c to all values does not add c to the aggregate", "observed": obs2, "expected": obs + float(vals["c"])}
            except (OverflowError, ValueError, ZeroDivisionError):
                return None
            if close(obs, exp_, rel=1e-6) and m - 1e-9 * max(1, abs(m)) <= obs <= m + sv * math.log(n) + 1e-9 * max(1, abs(m)):
                return None
            return {"what": "aggregate differs from s*log(sum(exp(v/s)))", "observed": obs, "expected": exp_}

        return replay

    # ---- decomposition: case split on which entry is the maximum (the cases cover all inputs);
    # inside a case the implementation's max sub-term m is first proved equal to x_j (linear
    # arithmetic) and then replaced by x_j, which removes all if-then-else from the exp arguments
    mterms = _max_terms(impl_x, xs)
    impl_shift_x = z3.substitute(impl_shift, *[((v + c) / s, x + c / s) for v, x in zip(group, xs)])
    mterms_shift = _max_terms(impl_shift_x, xs)
    if len(logs_impl) != 1 or not exps_impl:
        rec.inconclusive(f"structure[{tag}]", f"unexpected term structure: {len(logs_impl)} log applications")
        return
    for j in range(n):
        case = [xs[j] >= x for i, x in enumerate(xs) if i != j]
        ctag = f"{tag},max=entry{j}"
        ok = True
        for mt in mterms:
            ok &= bool(rec.prove(f"lemma:max-term==x{j}[{ctag}]", mt == xs[j], base + case, replay=rp("stability")))
        for mt in mterms_shift:
            ok &= bool(rec.prove(f"lemma:shifted-max-term==x{j}+c/s[{ctag}]", mt == xs[j] + c / s, base + case, replay=rp("shift")))
        if ok:
            impl_j = z3.simplify(z3.substitute(impl_x, *[(mt, xs[j]) for mt in mterms]))
            shift_j = z3.simplify(z3.substitute(impl_shift_x, *[(mt, xs[j] + c / s) for mt in mterms_shift]), som=True)
        else:
            impl_j, shift_j = impl_x, impl_shift_x  # lemma failed (reported above): continue on the raw term
        apps = axioms.collect_apps([impl_j])
        lg, ex = apps["log"], apps["exp"]
        if len(lg) != 1:
            rec.inconclusive(f"structure[{ctag}]", "unexpected term structure after simplification")
            continue

        def prove(name, claim, extra_terms=(), kind="value", facts=(), impl_j=impl_j, case=case, ctag=ctag):
            ax = axioms.explog_axioms([impl_j, claim] + list(extra_terms) + list(facts))
            cons, cong = axioms.ackermannize([claim] + base + case + ax + list(facts))
            rec.prove(f"{name}[{ctag}]", cons[0], cons[1:] + cong, replay=rp(kind))

        # (ii) stability: no positive exp argument, one is zero, log argument within [1, n]
        prove("exp-args<=0", z3.And([e.arg(0) <= 0 for e in ex]), kind="stability")
        prove("some-exp-arg==0", z3.Or([e.arg(0) == 0 for e in ex]), kind="stability")
        prove("log-arg-in[1,n]", z3.And(lg[0].arg(0) >= 1, lg[0].arg(0) <= n), kind="stability")
        # (iii)/(v) bounds
        prove("max<=result", impl_j >= s * xs[j], [one])
        prove("result<=max+s*log(n)", impl_j <= s * xs[j] + s * logn, [logn, one])
        # (i) equals s*log(sum(exp(v/s))): exp(x) = exp(x - x_j) exp(x_j), log(S1 exp(x_j)) = log(S1) + x_j
        S1 = lg[0].arg(0)
        facts = [z3.Implies(S1 > 0, LOG(S1 * EXP(xs[j])) == LOG(S1) + xs[j])]
        facts += [EXP(x) == EXP(z3.simplify(x - xs[j])) * EXP(xs[j]) for i, x in enumerate(xs) if i != j]
        prove("equals-s*log-sum-exp", impl_j == spec, [spec], facts=facts)
        # (iv) shift by c
        prove("shift-by-c", shift_j == impl_j + c, [shift_j], kind="shift")


def _max_terms(term, xs):
    """the max(x_i) sub-term(s) the implementation subtracts (second summand of exp arguments)"""
    out = {}
    for e in axioms.collect_apps([term])["exp"]:
        a = e.arg(0)
        if z3.is_app(a) and a.decl().kind() in (z3.Z3_OP_SUB, z3.Z3_OP_ADD) and a.num_args() == 2:
            m = a.arg(1)
            if a.decl().kind() == z3.Z3_OP_ADD:
                m = z3.simplify(-m)
            out[m.get_id()] = m
    return list(out.values())


def u_dense(rec, shape, axes):
    from lcm.discrete_problem import _calculate_emax_extreme_value_shocks as emax

    S = sj.Session()
    Vv = S.real("v", shape)
    s_ = S.real("s")
    c_ = S.real("c")
    rec.symbols = S.symbols
    sj.SIDE.clear()
    f = lambda v, s: emax(v, axes, None, {"additive_utility_shock": {"scale": s}})  # noqa: E731
    out = sj.terms(S.run(f, Vv, s_))
    out_shift = sj.terms(S.run(lambda v, s, c: f(v + c, s), Vv, s_, c_))
    rec.primitives = S.trace.stats
    sy = S.symbols
    Vt = sj.terms(Vv)
    rec.validate("emax", list(out.reshape(-1)), lambda vals: [float(x) for x in np.asarray(f(Conc(vals).real("v", shape), Conc(vals).real("s"))).reshape(-1)], {k: v for k, v in S.symbols.items() if k != "c"}, [sy["s"] > 0, sy["s"] >= 1])
    keep = [d for d in range(len(shape)) if d not in axes]
    for oi in np.ndindex(*[shape[d] for d in keep]):
        group = []
        for ri in np.ndindex(*[shape[d] for d in axes]):
            full = [None] * len(shape)
            for d, i in zip(keep, oi):
                full[d] = i
            for d, i in zip(axes, ri):
                full[d] = i
            group.append(Vt[tuple(full)])

        def concrete(vals, oi=oi):
            C = Conc(vals)
            return float(np.asarray(f(C.real("v", shape), C.real("s")))[oi])

        def concrete_shift(vals, oi=oi):
            C = Conc(vals)
            return float(np.asarray(f(C.real("v", shape) + C.real("c"), C.real("s")))[oi])

        check_group(rec, f"out{oi}", sj.z(out[oi]), sj.z(out_shift[oi]), Vt, sy["s"], sy["c"], group, concrete, concrete_shift)
    return {"bounds": {"shape": list(shape), "axes": list(axes)}, "symbols": len(S.symbols)}


def u_segment(rec, comp, trailing):
    import jax.numpy as jnp
    from lcm.discrete_problem import _calculate_emax_extreme_value_shocks as emax

    n = sum(comp)
    ids = np.repeat(np.arange(len(comp)), comp)
    seg = {"segment_ids": jnp.asarray(ids), "num_segments": len(comp)}
    S = sj.Session()
    shape = (n, *trailing)
    Vv = S.real("v", shape)
    s_ = S.real("s")
    c_ = S.real("c")
    rec.symbols = S.symbols
    f = lambda v, s: emax(v, None, seg, {"additive_utility_shock": {"scale": s}})  # noqa: E731
    out = sj.terms(S.run(f, Vv, s_))
    out_shift = sj.terms(S.run(lambda v, s, c: f(v + c, s), Vv, s_, c_))
    rec.primitives = S.trace.stats
    sy = S.symbols
    Vt = sj.terms(Vv)
    rec.validate("segment emax", list(out.reshape(-1)), lambda vals: [float(x) for x in np.asarray(f(Conc(vals).real("v", shape), Conc(vals).real("s"))).reshape(-1)], {k: v for k, v in S.symbols.items() if k != "c"}, [sy["s"] > 0, sy["s"] >= 1])
    for k in range(len(comp)):
        rows = [r for r in range(n) if ids[r] == k]
        for ti in np.ndindex(*trailing):
            group = [Vt[(r, *ti)] for r in rows]
            oi = (k, *ti)

            def concrete(vals, oi=oi):
                C = Conc(vals)
                return float(np.asarray(f(C.real("v", shape), C.real("s")))[oi])

            def concrete_shift(vals, oi=oi):
                C = Conc(vals)
                return float(np.asarray(f(C.real("v", shape) + C.real("c"), C.real("s")))[oi])

            check_group(rec, f"seg{oi}", sj.z(out[oi]), sj.z(out_shift[oi]), Vt, sy["s"], sy["c"], group, concrete, concrete_shift)
    return {"bounds": {"segments": list(comp), "trailing": list(trailing)}, "symbols": len(S.symbols)}


def u_both(rec):
    """dense choice axis and segments together: the two-stage aggregate equals the one-stage
    log-sum-exp over all choices of the state (stated on the stability facts and the bounds)"""
    import jax.numpy as jnp
    from lcm.discrete_problem import _calculate_emax_extreme_value_shocks as emax

    seg = {"segment_ids": jnp.asarray([0, 0]), "num_segments": 1}
    S = sj.Session()
    Vv = S.real("v", (2, 2))
    s_ = S.real("s")
    rec.symbols = S.symbols
    f = lambda v, s: emax(v, (1,), seg, {"additive_utility_shock": {"scale": s}})  # noqa: E731
    out = sj.z(sj.terms(S.run(f, Vv, s_))[0])
    rec.primitives = S.trace.stats
    sy = S.symbols
    s = sy["s"]
    Vt = sj.terms(Vv)
    group = [Vt[i, j] for i in range(2) for j in range(2)]
    mx = group[0]
    for v in group[1:]:
        mx = z3.If(mx >= v, mx, v)
    logn = LOG(z3.RealVal(4))
    log2 = LOG(z3.RealVal(2))

    def replay(vals):
        sv = float(vals["s"])
        if not sv > 0:
            return None
        try:
            C = Conc(vals)
            obs = float(np.asarray(f(C.real("v", (2, 2)), C.real("s")))[0])
            g = [float(vals[str(v)]) for v in group]
            m = max(g)
            e = m + sv * math.log(sum(math.exp((x - m) / sv) for x in g))
        except (OverflowError, ValueError, ZeroDivisionError):
            return None
        if close(obs, e, rel=1e-6):
            return None
        return {"what": "two-stage aggregate differs from log-sum-exp over all choices", "observed": obs, "expected": e}

    base = [s > 0]
    extra = [log2 + log2 == logn]  # log 4 = 2 log 2 (true)
    for name, claim in (("max<=result", out >= mx), ("result<=max+s*log(4)", out <= mx + s * logn)):
        ax = axioms.explog_axioms([out, claim, logn, log2, LOG(z3.RealVal(1))])
        cons, cong = axioms.ackermannize([claim] + base + ax + extra)
        rec.prove(f"{name}[two-stage]", cons[0], cons[1:] + cong, replay=replay)
    return {"bounds": {"shape": [2, 2], "dense axis": 1, "segments": [2]}}
