"""C16 - a grid is either rejected or materialises exactly as specified."""
from __future__ import annotations

from fractions import Fraction

import numpy as np
import z3

from .. import symjax as sj
from ..harness import Conc, close
from . import axioms

META = {
    "explanation": "E2 (CrossHair on the real constructors): LinspaceGrid/LogspaceGrid with symbolic float bounds (CrossHair models "
    "nan and +-inf) and symbolic int n_points, plus arguments of every other kind drawn from a pool by symbolic indices: accepted "
    "implies finite numbers, start<stop (log: 0<start), int n_points>=1, valid arguments are accepted, and nothing but "
    "GridInitializationError is raised; DiscreteGrid is accepted exactly when the field values are numerically 0,1,2,... "
    "(int/float/bool/str/None/nan values, duplicates, gaps, wrong order) and then codes are these values. "
    "E1 (symbolic execution of Grid.to_jax with symbolic start<stop): exactly n values, first == start, last == stop, strictly "
    "increasing, equally spaced on the linear resp. logarithmic scale.",
    "bounds": "CrossHair: per-condition timeout 90 s, 0-3 category fields (4 fields over None/str/0/1 for mixed duplicated kinds); materialisation: n_points 1..9 (equal spacing exactly "
    "for n-1 a power of two, within 1e-9*(stop-start) given |start| <= 2^20 (stop-start) otherwise, because jnp.linspace's i/(n-1) constants are rounded floats); "
    "log grids n in {1,2,3,5,9}",
    "outside": "float resolution (stop = start + 1ulp), overflow near 1e308, exp(log(stop)) != stop in floats; n_points > 9",
    "assumptions": ["E1: start < stop finite (log: 0 < start), as established by the E2 part for every accepted grid", "E1, n-1 not a power of two: |start| <= 2^20*(stop-start), i.e. the bounds are separated by more than float resolution"],
    "stubs": ["exp/log: uninterpreted functions + instantiated axioms (log grids)"],
}


def units(tier):
    out = [("crosshair[grid constructors]", "u_crosshair", {"timeout": 90 if tier == "quick" else 240})]
    out += [(f"linspace.to_jax[n={n}]", "u_lin", {"n": n}) for n in range(1, 10)]
    if tier == "thorough":
        out += [(f"linspace.to_jax[n={n}]", "u_lin", {"n": n}) for n in (12, 17, 33)]
    out += [(f"logspace.to_jax[n={n}]", "u_log", {"n": n}) for n in ((1, 2, 3, 5, 9) if tier == "quick" else (1, 2, 3, 5, 9, 17))]
    return out


def u_crosshair(rec, timeout):
    from ..crosshair_run import run_crosshair

    run_crosshair(rec, "/verif/ch/c16_grids.py", timeout)
    return {"bounds": {"per_condition_timeout_s": timeout}}


def _grid(cls, start, stop, n):
    g = object.__new__(cls)  # validator bypassed: bounds are symbolic (start < stop assumed instead)
    object.__setattr__(g, "start", start)
    object.__setattr__(g, "stop", stop)
    object.__setattr__(g, "n_points", n)
    return g


def u_lin(rec, n):
    from lcm import LinspaceGrid

    S = sj.Session()
    a, b = S.real("start"), S.real("stop")
    out = sj.terms(S.run(lambda a, b: _grid(LinspaceGrid, a, b, n).to_jax(), a, b))
    rec.symbols = S.symbols
    rec.primitives = S.trace.stats
    sy = S.symbols
    start, stop = sy["start"], sy["stop"]
    pre = [start < stop]

    def concrete(vals):
        return [float(x) for x in np.asarray(LinspaceGrid(start=float(vals["start"]), stop=float(vals["stop"]), n_points=n).to_jax())]

    def replay(vals):
        if not float(vals["start"]) < float(vals["stop"]):
            return None
        obs = concrete(vals)
        a_, b_ = Fraction(vals["start"]), Fraction(vals["stop"])
        exp = [a_ + Fraction(i, max(n - 1, 1)) * (b_ - a_) for i in range(n)]
        ok = len(obs) == n and all(close(o, e, rel=1e-9) for o, e in zip(obs, exp)) and all(x < y for x, y in zip(obs, obs[1:]))
        ok = ok and close(obs[0], a_, rel=1e-15) and (n < 2 or close(obs[-1], b_, rel=1e-15))
        if ok:
            return None
        return {"what": "linear grid does not materialise as specified", "observed": obs, "expected": [float(e) for e in exp]}

    rec.prove("length", out.shape == (n,), [], replay=replay)
    if out.shape != (n,):
        return {"bounds": {"n_points": n}}
    rec.validate("linspace.to_jax", list(out), concrete, S.symbols, pre)
    nodes = [sj.zr(t) for t in out]
    rec.prove("first == start", nodes[0] == start, pre, replay=replay)
    if n >= 2:
        rec.prove("last == stop", nodes[-1] == stop, pre, replay=replay)
    exact = n == 1 or (n - 1) & (n - 2) == 0
    if not exact:
        # jnp.linspace's constants i/(n-1) and 1-i/(n-1) are rounded floats here, so the nodes carry
        # an error of about 2^-52*|start|: monotonicity/spacing need start and stop to be separated by
        # more than float resolution (outside the claim otherwise): |start| <= 2^20 (stop-start)
        K = 2**20
        pre = pre + [start <= K * (stop - start), -start <= K * (stop - start)]
    for i in range(n - 1):
        rec.prove(f"node[{i}] < node[{i+1}]", nodes[i] < nodes[i + 1], pre, replay=replay)
    for i in range(n - 1):
        step = nodes[i + 1] - nodes[i]
        ideal = (stop - start) / (n - 1)
        if exact:
            rec.prove(f"step[{i}] == (stop-start)/(n-1)", step == ideal, pre, replay=replay)
        else:
            tol = sj.z(Fraction(1, 10**9)) * (stop - start)
            rec.prove(f"|step[{i}] - (stop-start)/(n-1)| <= 1e-9 (stop-start)", z3.And(step - ideal <= tol, ideal - step <= tol), pre, replay=replay)
    return {"bounds": {"n_points": n, "equal_spacing": "exact" if exact else "within 1e-9*(stop-start) given |start| <= 2^20 (stop-start)"}, "symbols": 2}


def u_log(rec, n):
    import math

    from lcm import LogspaceGrid

    S = sj.Session()
    a, b = S.real("start"), S.real("stop")
    out = sj.terms(S.run(lambda a, b: _grid(LogspaceGrid, a, b, n).to_jax(), a, b))
    rec.symbols = S.symbols
    rec.primitives = S.trace.stats
    sy = S.symbols
    start, stop = sy["start"], sy["stop"]
    pre = [start > 0, start < stop]
    EXP, LOG = sj.UF["exp"], sj.UF["log"]

    def concrete(vals):
        return [float(x) for x in np.asarray(LogspaceGrid(start=float(vals["start"]), stop=float(vals["stop"]), n_points=n).to_jax())]

    def replay(vals):
        if not 0 < float(vals["start"]) < float(vals["stop"]):
            return None
        try:
            obs = concrete(vals)
            la, lb = math.log(vals["start"]), math.log(vals["stop"])
            exp = [math.exp(la + i * (lb - la) / max(n - 1, 1)) for i in range(n)]
        except (ValueError, OverflowError):
            return None
        ok = len(obs) == n and all(close(o, e, rel=1e-9) for o, e in zip(obs, exp)) and all(x < y for x, y in zip(obs, obs[1:]))
        if ok:
            return None
        return {"what": "log grid does not materialise as specified", "observed": obs, "expected": exp}

    rec.prove("length", out.shape == (n,), [], replay=replay)
    if out.shape != (n,):
        return {"bounds": {"n_points": n}}
    rec.validate("logspace.to_jax", list(out), concrete, S.symbols, pre + [start >= 1, stop <= 3])
    nodes = [sj.zr(t) for t in out]

    def prove(name, claim, terms):
        ax = axioms.explog_axioms(list(terms) + [claim, LOG(start), LOG(stop)])
        rec.prove(name, claim, pre + ax, replay=replay)

    prove("first == start", nodes[0] == start, [nodes[0]])
    if n >= 2:
        prove("last == stop", nodes[-1] == stop, [nodes[-1]])
    for i in range(n - 1):
        prove(f"node[{i}] < node[{i+1}]", nodes[i] < nodes[i + 1], [nodes[i], nodes[i + 1]])
        prove(
            f"log-step[{i}] == (log stop - log start)/(n-1)",
            LOG(nodes[i + 1]) - LOG(nodes[i]) == (LOG(stop) - LOG(start)) / (n - 1),
            [nodes[i], nodes[i + 1], LOG(nodes[i + 1]), LOG(nodes[i])],
        )
    for i in range(n):
        prove(f"node[{i}] > 0 (finite, positive)", nodes[i] > 0, [nodes[i]])
    return {"bounds": {"n_points": n}, "symbols": 2}
