"""C19 - vectorisation dispatchers equal nested loops over named arguments."""
from __future__ import annotations

import itertools

import numpy as np
import z3

from .. import symjax as sj
from ..harness import Conc, close

META = {
    "explanation": "E1: dispatchers.productmap / vmap_1d / spacemap are applied to a truly uninterpreted scalar function "
    "(a custom JAX primitive with a batching rule that becomes a z3 uninterpreted function) of up to five named parameters of "
    "every kind; the inputs are arrays of z3 reals. For every entry of the result the solver decides out[i1..ik] == F(x1[i1],..,"
    "others passed through), with the axes in the order in which the names were listed; scalar, tuple and dict outputs; invalid "
    "requests (duplicates, unknown names, overlap, missing or unexpected call arguments) must raise ValueError. "
    "E2 (CrossHair): functools.allow_only_kwargs / allow_args / convert_kwargs_to_args / all_as_args / all_as_kwargs bind every "
    "value to the parameter of the same name for every keyword order (symbolic permutation) and reject missing/unexpected arguments.",
    "bounds": "functions with 3-5 parameters (positional-only excluded by jax.vmap; positional-or-keyword and keyword-only "
    "covered), all ordered subsets of mapped names up to length 3 (thorough: 4), input lengths 2-3, joint mappings of 1-3 names, "
    "spacemap with 0-2 dense x 0-2 sparse names and both put_dense_first values; CrossHair: 3-4 parameters, all permutations, "
    "per-condition timeout 60 s",
    "outside": "functions with more than five parameters, *args/**kwargs functions, non-array pytrees deeper than one level",
    "assumptions": ["mapped arguments of one joint map have equal lengths (jax.vmap's own precondition)"],
    "stubs": ["the mapped function is an uninterpreted function: its values carry no information beyond argument identity"],
}

# functions of several signatures; bodies call the uninterpreted primitive with arguments in a fixed canonical order
SRC = {
    "f4": "def f4(a, b, c, d):\n    return uf_call('F4', a, b, c, d)",
    "f4kw": "def f4kw(a, b, *, c, d):\n    return uf_call('F4', a, b, c, d)",
    "f3allkw": "def f3allkw(*, a, b, c):\n    return uf_call('F3', a, b, c)",
    "f5": "def f5(a, b, c, d, e):\n    return uf_call('F5', a, b, c, d, e)",
    "f3tuple": "def f3tuple(a, b, c):\n    return uf_call('G1', a, b, c), uf_call('G2', c, b, a)",
    "f3dict": "def f3dict(c, a, *, b):\n    return {'u': uf_call('G1', a, b, c), 'f': uf_call('G3', b, c)}",
    # a leaf with its own trailing dimension (vector-valued output): mapped axes must still come first
    "f3vec": "def f3vec(a, b, c):\n    return {'s': uf_call('G1', a, b, c), 'v': jnp.stack([uf_call('G2', c, b, a), uf_call('G3', b, c), uf_call('G1', c, c, a)])}",
}
PARAMS = {"f4": "abcd", "f4kw": "abcd", "f3allkw": "abc", "f5": "abcde", "f3tuple": "abc", "f3dict": "abc", "f3vec": "abc"}
LENS = {"a": 2, "b": 3, "c": 2, "d": 3, "e": 2}


def units(tier):
    out = []
    kmax = 3 if tier == "quick" else 4
    for fn in SRC:
        out.append((f"productmap[{fn}]", "u_productmap", {"fn": fn, "kmax": kmax}))
        out.append((f"vmap_1d[{fn}]", "u_vmap1d", {"fn": fn}))
    for fn in ("f4", "f4kw", "f5", "f3dict", "f3vec"):
        out.append((f"spacemap[{fn}]", "u_spacemap", {"fn": fn}))
    out.append(("rejections", "u_reject", {}))
    out.append(("crosshair[functools wrappers]", "u_crosshair", {"timeout": 60 if tier == "quick" else 180}))
    return out


def mkfun(fn):
    import jax.numpy as jnp

    ns = {"uf_call": sj.uf_call, "jnp": jnp}
    exec(SRC[fn], ns)
    return ns[fn]


def mkconc(fn):
    """separating concrete function with the same signature (for replays)"""
    import jax.numpy as jnp

    def uf_call(name, *args):
        w = {"F4": 1.0, "F3": 2.0, "F5": 3.0, "G1": 5.0, "G2": 7.0, "G3": 11.0}[name]
        acc = w
        for i, a in enumerate(args):
            acc = acc * 1.0 + (13.0 ** (i + 1)) * a
        return acc

    ns = {"uf_call": uf_call, "jnp": jnp}
    exec(SRC[fn], ns)
    return ns[fn]


def expected_term(fn, argvals):
    """the uninterpreted-function term(s) F(...) for scalar argument terms"""
    R = z3.RealSort()

    def U(name, *a):
        return z3.Function(name, *([R] * (len(a) + 1)))(*[sj.zr(x) for x in a])

    v = argvals
    if fn in ("f4", "f4kw"):
        return U("F4", v["a"], v["b"], v["c"], v["d"])
    if fn == "f3allkw":
        return U("F3", v["a"], v["b"], v["c"])
    if fn == "f5":
        return U("F5", v["a"], v["b"], v["c"], v["d"], v["e"])
    if fn == "f3tuple":
        return (U("G1", v["a"], v["b"], v["c"]), U("G2", v["c"], v["b"], v["a"]))
    if fn == "f3dict":
        return {"u": U("G1", v["a"], v["b"], v["c"]), "f": U("G3", v["b"], v["c"])}
    if fn == "f3vec":
        return {"s": U("G1", v["a"], v["b"], v["c"]), "v": [U("G2", v["c"], v["b"], v["a"]), U("G3", v["b"], v["c"]), U("G1", v["c"], v["c"], v["a"])]}
    raise KeyError(fn)


class VecLeaf(list):
    """expected components of a leaf with a trailing dimension"""


def leaves(x):
    """[(key, leaf)]; a python list as dict value stands for a vector-valued leaf"""
    if isinstance(x, dict):
        return [(k, VecLeaf(x[k]) if isinstance(x[k], list) else x[k]) for k in sorted(x)]
    if isinstance(x, (tuple, list)):
        return list(enumerate(x))
    return [(None, x)]


def leaf_at(leaf_array_terms, idx, expected_leaf):
    """pairs (got term, expected term) for the entry idx of a mapped output leaf"""
    if isinstance(expected_leaf, VecLeaf):
        return [(leaf_array_terms[tuple(idx) + (k,)], e) for k, e in enumerate(expected_leaf)]
    return [(leaf_array_terms[tuple(idx)], expected_leaf)]


def conc_expected(fn, sc, key):
    """expected concrete leaf (scalar or VecLeaf) of the separating function at scalar arguments"""
    out = mkconc(fn)(**sc)
    val = dict(leaves(out))[key] if not isinstance(out, dict) else out[key]
    if np.ndim(val) == 1:
        return VecLeaf([float(x) for x in np.asarray(val)])
    return val


def leaf_shape(shape, expected_leaf):
    return tuple(shape) + ((len(expected_leaf),) if isinstance(expected_leaf, VecLeaf) else ())


def sym_inputs(S, names, mapped, lens=LENS):
    return {n: (S.real(n, (lens[n],)) if n in mapped else S.real(n + "s")) for n in names}


def conc_inputs(vals, names, mapped, lens=LENS):
    C = Conc(vals)
    return {n: (C.real(n, (lens[n],)) if n in mapped else C.real(n + "s")) for n in names}


def distinct_values(S):
    """a fixed injective assignment of the input symbols (used by replays)"""
    return {k: (i + 1) * 0.37 + 0.01 * i * i for i, k in enumerate(sorted(S.symbols))}


def guarded(rec, name, sym_thunk, conc_thunk):
    """run the dispatcher symbolically; an exception of the real code is confirmed with a
    concrete call and then reported as a violation (valid request that does not run)"""
    try:
        return sym_thunk()
    except sj.Unsupported:
        raise
    except Exception as e:  # noqa: BLE001
        try:
            conc_thunk()
        except Exception as e2:  # noqa: BLE001
            rec.violation(name, {"what": "valid dispatcher request raises instead of returning the mapped result", "observed": f"{type(e2).__name__}: {str(e2)[:200]}", "expected": "array of F(...) entries", "inputs": {}}, key=f"{rec.unit}/raises")
            return None
        from ..harness import HarnessError

        raise HarnessError(f"{name}: symbolic run raised {type(e).__name__}: {e} but the concrete run did not") from e


def u_productmap(rec, fn, kmax):
    from lcm.dispatchers import productmap

    f = mkfun(fn)
    names = PARAMS[fn]
    n_cfg = 0
    prims = {}
    for k in range(0, min(kmax, len(names)) + 1):
        for order in itertools.permutations(names, k):
            S = sj.Session()
            rec.symbols = S.symbols
            ins = sym_inputs(S, names, order)
            vals0 = distinct_values(S)
            out = guarded(rec, f"call[{''.join(order)}]", lambda: S.run(lambda: productmap(f, list(order))(**ins)), lambda: productmap(mkconc(fn), list(order))(**conc_inputs(vals0, names, order)))
            shape = tuple(LENS[n] for n in order)
            n_cfg += 1
            if out is None:
                continue

            def replay(vals, order=order):
                vals = distinct_values(S)
                got = productmap(mkconc(fn), list(order))(**conc_inputs(vals, names, order))
                ok = True
                for key, arr in leaves(got):
                    arr = np.asarray(arr)
                    for idx in np.ndindex(*shape):
                        sc = {n: (vals[f"{n}_{idx[order.index(n)]}"] if n in order else vals[n + "s"]) for n in names}
                        e = conc_expected(fn, sc, key)
                        if arr.shape != leaf_shape(shape, e):
                            return {"what": "productmap output has wrong shape", "observed": list(arr.shape), "expected": list(leaf_shape(shape, e)), "order": list(order)}
                        for g_, e_ in leaf_at(arr, idx, e):
                            if not close(g_, e_):
                                return {"what": "productmap entry differs from nested loops", "observed": float(g_), "expected": float(e_), "order": list(order), "index": list(idx), "leaf": str(key)}
                return None

            for key, arr in leaves(out):
                at = sj.terms(arr)
                for idx in np.ndindex(*shape):
                    sc = {n: (sj.terms(ins[n])[idx[order.index(n)]] if n in order else sj.scalar(ins[n])) for n in names}
                    e = dict(leaves(expected_term(fn, sc)))[key]
                    if at.shape != leaf_shape(shape, e):
                        rec.prove(f"shape[{order}]{'' if key is None else key}", False, [], replay=replay)
                        break
                    for k_, (g_, e_) in enumerate(leaf_at(at, idx, e)):
                        rec.prove(f"entry[{''.join(order)}]{idx}{'' if key is None else key}#{k_}", sj.z(g_) == e_, [], replay=replay)
            for kk, v in S.trace.stats.items():
                prims[kk] = prims.get(kk, 0) + v
    rec.primitives = prims
    return {"bounds": {"function": SRC[fn].split(":")[0], "orders": n_cfg}}


def u_vmap1d(rec, fn):
    from lcm.dispatchers import vmap_1d

    f = mkfun(fn)
    names = PARAMS[fn]
    L = {n: 3 for n in names}
    prims = {}
    for k in range(1, min(3, len(names)) + 1):
        for sub in itertools.permutations(names, k):
            S = sj.Session()
            rec.symbols = S.symbols
            ins = sym_inputs(S, names, sub, L)
            vals0 = distinct_values(S)
            out = guarded(rec, f"call[{''.join(sub)}]", lambda: S.run(lambda: vmap_1d(f, list(sub))(**ins)), lambda: vmap_1d(mkconc(fn), list(sub))(**conc_inputs(vals0, names, sub, L)))
            if out is None:
                continue

            def replay(vals, sub=sub):
                vals = distinct_values(S)
                got = vmap_1d(mkconc(fn), list(sub))(**conc_inputs(vals, names, sub, L))
                for key, arr in leaves(got):
                    arr = np.asarray(arr)
                    for i in range(3):
                        sc = {n: (vals[f"{n}_{i}"] if n in sub else vals[n + "s"]) for n in names}
                        e = conc_expected(fn, sc, key)
                        if arr.shape != leaf_shape((3,), e):
                            return {"what": "vmap_1d output has wrong shape", "observed": list(arr.shape), "expected": list(leaf_shape((3,), e))}
                        for g_, e_ in leaf_at(arr, (i,), e):
                            if not close(g_, e_):
                                return {"what": "vmap_1d entry does not pair the i-th elements", "observed": float(g_), "expected": float(e_), "variables": list(sub), "index": i}
                return None

            for key, arr in leaves(out):
                at = sj.terms(arr)
                for i in range(3):
                    sc = {n: (sj.terms(ins[n])[i] if n in sub else sj.scalar(ins[n])) for n in names}
                    e = dict(leaves(expected_term(fn, sc)))[key]
                    if at.shape != leaf_shape((3,), e):
                        rec.prove(f"shape[{sub}]{'' if key is None else key}", False, [], replay=replay)
                        break
                    for k_, (g_, e_) in enumerate(leaf_at(at, (i,), e)):
                        rec.prove(f"joint[{''.join(sub)}][{i}]{'' if key is None else key}#{k_}", sj.z(g_) == e_, [], replay=replay)
            for kk, v in S.trace.stats.items():
                prims[kk] = prims.get(kk, 0) + v
    rec.primitives = prims
    return {"bounds": {"function": SRC[fn].split(":")[0]}}


def u_spacemap(rec, fn):
    from lcm.dispatchers import spacemap

    f = mkfun(fn)
    names = PARAMS[fn]
    prims = {}
    ncfg = 0
    for nd in range(0, 3):
        for ns in range(0, 3):
            if nd + ns == 0 or nd + ns > len(names):
                continue
            for chosen in itertools.permutations(names, nd + ns):
                dense, sparse = list(chosen[:nd]), list(chosen[nd:])
                if sparse != sorted(sparse) and ns > 1 and (nd + ns) > 3:
                    continue  # keep the family moderate: sparse order is irrelevant for a joint axis
                for pdf in (False, True):
                    ncfg += 1
                    L = dict(LENS)
                    for n in sparse:
                        L[n] = 2
                    S = sj.Session()
                    rec.symbols = S.symbols
                    ins = sym_inputs(S, names, chosen, L)
                    vals0 = distinct_values(S)
                    out = guarded(
                        rec,
                        f"call[dense={''.join(dense)},sparse={''.join(sparse)},first={pdf}]",
                        lambda: S.run(lambda: spacemap(f, dense_vars=dense, sparse_vars=sparse, put_dense_first=pdf)(**ins)),
                        lambda: spacemap(mkconc(fn), dense_vars=dense, sparse_vars=sparse, put_dense_first=pdf)(**conc_inputs(vals0, names, chosen, L)),
                    )
                    if out is None:
                        continue
                    dshape = tuple(L[n] for n in dense)
                    sshape = (2,) if sparse else ()
                    shape = dshape + sshape if (pdf or not sparse) else sshape + dshape

                    def split(idx, dense=dense, sparse=sparse, pdf=pdf):
                        if not sparse:
                            return idx, None
                        if pdf:
                            return idx[: len(dense)], idx[-1]
                        return idx[1:], idx[0]

                    def replay(vals, dense=dense, sparse=sparse, pdf=pdf, chosen=chosen, L=L, shape=shape, split=split):
                        vals = distinct_values(S)
                        got = spacemap(mkconc(fn), dense_vars=dense, sparse_vars=sparse, put_dense_first=pdf)(**conc_inputs(vals, names, chosen, L))
                        for key, arr in leaves(got):
                            arr = np.asarray(arr)
                            for idx in np.ndindex(*shape):
                                di, si = split(idx)
                                sc = {}
                                for n in names:
                                    if n in dense:
                                        sc[n] = vals[f"{n}_{di[dense.index(n)]}"]
                                    elif n in sparse:
                                        sc[n] = vals[f"{n}_{si}"]
                                    else:
                                        sc[n] = vals[n + "s"]
                                e = conc_expected(fn, sc, key)
                                if arr.shape != leaf_shape(shape, e):
                                    return {"what": "spacemap output has wrong shape (mapped axes must come first)", "observed": list(arr.shape), "expected": list(leaf_shape(shape, e)), "dense": dense, "sparse": sparse, "put_dense_first": pdf}
                                for g_, e_ in leaf_at(arr, idx, e):
                                    if not close(g_, e_):
                                        return {"what": "spacemap entry differs from nested loops", "observed": float(g_), "expected": float(e_), "dense": dense, "sparse": sparse, "put_dense_first": pdf, "index": list(idx)}
                        return None

                    tag = f"dense={''.join(dense)},sparse={''.join(sparse)},first={pdf}"
                    for key, arr in leaves(out):
                        at = sj.terms(arr)
                        for idx in np.ndindex(*shape):
                            di, si = split(idx)
                            sc = {}
                            for n in names:
                                if n in dense:
                                    sc[n] = sj.terms(ins[n])[di[dense.index(n)]]
                                elif n in sparse:
                                    sc[n] = sj.terms(ins[n])[si]
                                else:
                                    sc[n] = sj.scalar(ins[n])
                            e = dict(leaves(expected_term(fn, sc)))[key]
                            if at.shape != leaf_shape(shape, e):
                                rec.prove(f"shape[{tag}]{'' if key is None else key}", False, [], replay=replay)
                                break
                            for k_, (g_, e_) in enumerate(leaf_at(at, idx, e)):
                                rec.prove(f"space[{tag}]{idx}{'' if key is None else key}#{k_}", sj.z(g_) == e_, [], replay=replay)
                    for kk, v in S.trace.stats.items():
                        prims[kk] = prims.get(kk, 0) + v
    rec.primitives = prims
    return {"bounds": {"function": SRC[fn].split(":")[0], "configurations": ncfg}}


def u_reject(rec):
    """invalid requests must raise ValueError (concrete programs; the inputs do not matter)"""
    import jax.numpy as jnp
    from lcm.dispatchers import productmap, spacemap, vmap_1d

    def f(a, b, c):
        return a + b + c

    arr = jnp.arange(2.0)
    cases = {
        "productmap duplicate name": lambda: productmap(f, ["a", "a"]),
        "productmap unknown name": lambda: productmap(f, ["a", "zz"]),
        "vmap_1d duplicate name": lambda: vmap_1d(f, ["b", "b"]),
        "vmap_1d unknown name": lambda: vmap_1d(f, ["zz"]),
        "vmap_1d invalid callable_with": lambda: vmap_1d(f, ["a"], callable_with="x"),
        "spacemap overlap": lambda: spacemap(f, ["a"], ["a"], put_dense_first=True),
        "spacemap duplicate dense": lambda: spacemap(f, ["a", "a"], ["b"], put_dense_first=True),
        "spacemap duplicate sparse": lambda: spacemap(f, ["a"], ["b", "b"], put_dense_first=False),
        "productmap call missing argument": lambda: productmap(f, ["a"])(a=arr, b=1.0),
        "productmap call unexpected argument": lambda: productmap(f, ["a"])(a=arr, b=1.0, c=1.0, d=2.0),
        "productmap call positional": lambda: productmap(f, ["a"])(arr, 1.0, 1.0),
        "vmap_1d call missing argument": lambda: vmap_1d(f, ["a"])(a=arr, c=1.0),
        "spacemap call unexpected argument": lambda: spacemap(f, ["a"], ["b"], put_dense_first=False)(a=arr, b=arr, c=1.0, zz=1.0),
    }
    for name, thunk in cases.items():
        try:
            thunk()
            rec.violation(name, {"what": "invalid dispatcher request was not rejected", "observed": "no exception", "expected": "ValueError", "inputs": {}})
        except ValueError:
            rec.obligations.append({"name": name, "unit": rec.unit, "verdict": "const"})
        except Exception as e:  # noqa: BLE001
            rec.violation(name, {"what": "invalid dispatcher request raised the wrong exception", "observed": type(e).__name__, "expected": "ValueError", "inputs": {}})
    return {"bounds": {"cases": len(cases)}}


def u_crosshair(rec, timeout):
    from ..crosshair_run import run_crosshair

    run_crosshair(rec, "/verif/ch/c19_functools.py", timeout)
    return {"bounds": {"per_condition_timeout_s": timeout}}
