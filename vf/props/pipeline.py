"""shared plumbing for the pipeline properties (C01-C13): symbolic solve / reference / obligations"""
from __future__ import annotations

import numpy as np
import z3

from .. import symjax as sj
from ..harness import Conc, HarnessError, close
from ..refsem import Ref
from ..templates import build


import logging


class _PeriodMarks(logging.Handler):
    """lcm logs 'Period: t' at the end of every simulated period; used to attribute path-condition
    conjuncts to periods (nothing in lcm is modified)"""

    def emit(self, record):
        fk = sj.ACTIVE_FORKER[0]
        if fk is not None and str(record.msg).startswith("Period:"):
            fk.marks.append(len(fk.pc))


def _install_log_handler():
    lg = logging.getLogger("lcm")
    if not any(isinstance(h, _PeriodMarks) for h in lg.handlers):
        lg.addHandler(_PeriodMarks())
    lg.propagate = False


def get_function(model, target, jit):
    from lcm.entry_point import get_lcm_function

    _install_log_handler()
    return get_lcm_function(model, targets=target, jit=jit, debug_mode=True)


def sym_solve(rec, spec, jit):
    """returns (tmpl, S, params, assume, Vimpl list of object arrays, solve function)"""
    tm = build(spec)
    S = sj.Session()
    params = tm.params(S)
    assume = tm.assume(S.symbols)
    sj.AMBIENT[:] = list(assume)
    sj.SIDE.clear()
    sj.TAGGING[0] = True  # entries of value arrays become syntactically unique (see symjax.tag)
    solve, template = get_function(tm.model, "solve", jit)
    V = S.run(solve, params)
    rec.symbols = S.symbols
    prims = getattr(rec, "primitives", {})
    for k, v in S.trace.stats.items():
        prims[k] = prims.get(k, 0) + v
    rec.primitives = prims
    return tm, S, params, assume, [sj.terms(v) for v in V], solve, template


def default_values(tm):
    """a concrete parameter assignment satisfying the template's assumptions (for crash confirmation)"""
    S = sj.Session()
    tm.params(S)
    if tm.init is not None:
        try:
            tm.init(S, 2)
        except Exception:  # noqa: BLE001
            pass
    s = z3.Solver()
    s.add(tm.assume(S.symbols))
    for k, v in S.symbols.items():
        if z3.is_real(v):
            s.add(v >= z3.RealVal("1/4"), v <= 2)
    if str(s.check()) != "sat":
        s = z3.Solver()
        s.add(tm.assume(S.symbols))
        s.check()
    m = s.model()
    return {k: sj.from_z3_value(m.eval(v, model_completion=True)) for k, v in S.symbols.items()}


def confirm_crash(rec, name, exc, conc_thunk, key=None):
    """the real code raised during the symbolic run: confirm with a concrete call; a confirmed
    crash of a valid request is a violation, an unconfirmed one a harness error"""
    if isinstance(exc, (sj.PathCapExceeded, HarnessError)):
        raise exc
    try:
        conc_thunk()
        if isinstance(exc, sj.Unsupported):
            raise exc  # the real code runs: the symbolic engine could not follow -> inconclusive
    except sj.Unsupported:
        raise
    except Exception as e2:  # noqa: BLE001
        rec.violation(name, {"what": "the generated function raises instead of returning a result", "observed": f"{type(e2).__name__}: {str(e2)[:300]}", "expected": "a result", "inputs": {}}, key=key)
        return True
    raise HarnessError(f"{name}: symbolic run raised {type(exc).__name__}: {exc} but the concrete run did not") from exc


def conc_solve(tm, solve, vals):
    C = Conc(vals)
    return [np.asarray(v) for v in solve(tm.params(C))]


def prove_side_conditions(rec, assume, label="side"):
    """side conditions recorded by the engine (x/y with y != 0, (-inf)*y with y > 0) must follow
    from the assumptions"""
    seen = set()
    for i, c in enumerate(sj.SIDE):
        k = c.sexpr()
        if k in seen:
            continue
        seen.add(k)
        r = rec.prove(f"{label}[{i}]", c, assume, replay=lambda vals: None)
    sj.SIDE.clear()


def subs_of(S, vals):
    return {S.symbols[k]: v for k, v in vals.items() if k in S.symbols}


def replace_topdown(term, mapping):
    """replace sub-terms; mapping: {ast id: (expr, replacement)} (targets never contain each other);
    term may be XR / python value"""
    term = sj.force(term)
    if not mapping:
        return term
    if isinstance(term, sj.XR):
        return sj.mk_x(replace_topdown(term.ninf, mapping), replace_topdown(term.val, mapping))
    if not isinstance(term, z3.ExprRef):
        return term
    return z3.substitute(term, *mapping.values())


def is_tagged(e):
    return isinstance(e, z3.ExprRef) and z3.is_app(e) and e.decl().name() == "vtag"


def abstraction_maps(impl_next, ref_next, prefix):
    """inductive decomposition: once impl V_{t+1}[i] == ref V_{t+1}[i] is established for every i,
    both are replaced by the same fresh constant W_i in the period-t obligations (one Bellman step
    from an arbitrary next-period value array).  Returns (impl map, ref map, {W name: (impl term, ref term)})
    or None if some entry may be -inf (no abstraction then)."""
    mi, mr, defs = {}, {}, {}
    for key, (e, r) in enumerate(zip(impl_next, ref_next)):
        e, r = sj.force(e), sj.force(r)
        if isinstance(e, sj.XR) or isinstance(r, sj.XR) or sj.is_ninf_c(e) or sj.is_ninf_c(r):
            return None
        if not isinstance(e, z3.ExprRef) or not isinstance(r, z3.ExprRef):
            continue  # concrete entries need no abstraction
        if not (is_tagged(e) and is_tagged(r)):
            continue  # only syntactically unique (tagged) entries are abstracted
        W = z3.Real(f"{prefix}_{key}")
        mi[e.get_id()] = (e, W)
        mr[r.get_id()] = (r, W)
        defs[str(W)] = (e, r)
    return mi, mr, defs


# ----------------------------------------------------------------------------------
# simulation
# ----------------------------------------------------------------------------------
def sym_vf(S, ref, T, prefix="V"):
    """arbitrary value arrays in the documented layout (public argument vf_arr_list)"""
    return [S.real(f"{prefix}{t}", ref.layout(t)[0]) for t in range(T)]


def conc_vf(C, ref, T, prefix="V"):
    return [C.real(f"{prefix}{t}", ref.layout(t)[0]) for t in range(T)]


def frame_terms(df):
    """DataFrame of a symbolic simulate run -> {column: object array of scalar terms}, index list"""
    out = {}
    for col in df.columns:
        vals = [sj.scalar(v) if isinstance(v, sj.SymTracer) and getattr(v, "ndim", 1) == 0 else v for v in df[col].values]  # a 0-d symbolic value broadcast by pandas
        out[col] = [sj.force(sj._py(v)) if not isinstance(v, (np.generic,)) else sj.conc(v) for v in vals]
        out[col] = [sj.conc(v) if isinstance(v, (np.generic, float, int, bool)) else v for v in out[col]]
    return out, list(df.index)


def sym_simulate(rec, tm, S, params, vf, init, jit=True, cap=64, base=(), additional_targets=None, seed=None, target="simulate"):
    sim, _ = get_function(tm.model, target, jit)
    kw = {}
    if additional_targets is not None:
        kw["additional_targets"] = additional_targets
    if seed is not None:
        kw["seed"] = seed
    elif any(hasattr(f, "_stochastic_info") for f in tm.model.functions.values()):
        kw["seed"] = S.int("seed")  # symbolic seed: draws become arbitrary uniforms per key
    if target == "simulate":
        kw["vf_arr_list"] = vf

    def run():
        return sim(params, initial_states=init, **kw)

    paths = S.run_paths(run, base=list(base), cap=cap)
    rec.paths += len(paths)
    prims = getattr(rec, "primitives", {})
    for k, v in S.trace.stats.items():
        prims[k] = v
    rec.primitives = prims
    return paths, sim


def conc_simulate(tm, sim, vals, ref, n, vf_prefix="V", additional_targets=None, with_vf=True, seed=None):
    C = Conc(vals)
    kw = {}
    if additional_targets is not None:
        kw["additional_targets"] = additional_targets
    if with_vf:
        kw["vf_arr_list"] = conc_vf(C, ref, tm.model.n_periods, vf_prefix)
    if seed is not None:
        kw["seed"] = seed
    return sim(tm.params(C), initial_states=tm.init(C, n), **kw)


def composed_fallback(rec, S, assume, full_claim, one):
    """replay wrapper for inductive-step obligations: the solver's model of a step from an ABSTRACT
    next-period array may assign that array values no parameter vector produces, so it need not replay
    on a full run.  Then the solver is asked for a counterexample of the composed claim (no
    abstraction); its model assigns parameters only and is replayed as it stands."""
    from ..harness import model_assignment

    def replay(vals):
        r = one(vals)
        if r is not None or rec.replay_target is not None or full_claim is None:
            return r
        try:
            fc = full_claim() if callable(full_claim) else full_claim  # built lazily: composing the terms can be expensive
            if not isinstance(fc, z3.ExprRef):
                return None
            r0, mdl = rec._check(list(assume) + [z3.Not(fc)], 30000)
            if r0 == "sat":
                alt = {k: v for k, v in model_assignment(mdl, S.symbols).items() if k in S.symbols}
                r = one(alt)
                if r is not None:
                    r = dict(r)
                    r.setdefault("inputs", alt)
                return r
        except Exception:  # noqa: BLE001
            pass
        return None

    return replay
