"""shared plumbing for the pipeline properties (C01-C13): symbolic solve / reference / obligations"""
from __future__ import annotations

import numpy as np
import z3

from .. import symjax as sj
from ..harness import Conc, HarnessError, close
from ..refsem import Ref
from ..templates import build


def get_function(model, target, jit):
    from lcm.entry_point import get_lcm_function

    return get_lcm_function(model, targets=target, jit=jit, debug_mode=False)


def sym_solve(rec, spec, jit):
    """returns (tmpl, S, params, assume, Vimpl list of object arrays, solve function)"""
    tm = build(spec)
    S = sj.Session()
    params = tm.params(S)
    assume = tm.assume(S.symbols)
    sj.AMBIENT[:] = list(assume)
    sj.SIDE.clear()
    sj.TAGGING[0] = True  # entries of value arrays become syntactically unique (see symjax.tag)
    solve, template = get_function(tm.model, "solve", jit)
    V = S.run(solve, params)
    rec.symbols = S.symbols
    prims = getattr(rec, "primitives", {})
    for k, v in S.trace.stats.items():
        prims[k] = prims.get(k, 0) + v
    rec.primitives = prims
    return tm, S, params, assume, [sj.terms(v) for v in V], solve, template


def default_values(tm):
    """a concrete parameter assignment satisfying the template's assumptions (for crash confirmation)"""
    S = sj.Session()
    tm.params(S)
    if tm.init is not None:
        try:
            tm.init(S, 2)
        except Exception:  # noqa: BLE001
            pass
    s = z3.Solver()
    s.add(tm.assume(S.symbols))
    for k, v in S.symbols.items():
        if z3.is_real(v):
            s.add(v >= z3.RealVal("1/4"), v <= 2)
    if str(s.check()) != "sat":
        s = z3.Solver()
        s.add(tm.assume(S.symbols))
        s.check()
    m = s.model()
    return {k: sj.from_z3_value(m.eval(v, model_completion=True)) for k, v in S.symbols.items()}


def confirm_crash(rec, name, exc, conc_thunk, key=None):
    """the real code raised during the symbolic run: confirm with a concrete call; a confirmed
    crash of a valid request is a violation, an unconfirmed one a harness error"""
    if isinstance(exc, (sj.Unsupported, sj.PathCapExceeded, HarnessError)):
        raise exc
    try:
        conc_thunk()
    except Exception as e2:  # noqa: BLE001
        rec.violation(name, {"what": "the generated function raises instead of returning a result", "observed": f"{type(e2).__name__}: {str(e2)[:300]}", "expected": "a result", "inputs": {}}, key=key)
        return True
    raise HarnessError(f"{name}: symbolic run raised {type(exc).__name__}: {exc} but the concrete run did not") from exc


def conc_solve(tm, solve, vals):
    C = Conc(vals)
    return [np.asarray(v) for v in solve(tm.params(C))]


def prove_side_conditions(rec, assume, label="side"):
    """side conditions recorded by the engine (x/y with y != 0, (-inf)*y with y > 0) must follow
    from the assumptions"""
    seen = set()
    for i, c in enumerate(sj.SIDE):
        k = c.sexpr()
        if k in seen:
            continue
        seen.add(k)
        r = rec.prove(f"{label}[{i}]", c, assume, replay=lambda vals: None)
    sj.SIDE.clear()


def subs_of(S, vals):
    return {S.symbols[k]: v for k, v in vals.items() if k in S.symbols}


def replace_topdown(term, mapping):
    """replace sub-terms (by z3 ast id) top-down; term may be XR / python value"""
    import sys

    sys.setrecursionlimit(max(sys.getrecursionlimit(), 20000))
    term = sj.force(term)
    if isinstance(term, sj.XR):
        return sj.mk_x(replace_topdown(term.ninf, mapping), replace_topdown(term.val, mapping))
    if not isinstance(term, z3.ExprRef):
        return term
    memo = {}

    def rw(e):
        i = e.get_id()
        if i in mapping:
            return mapping[i]
        if i in memo:
            return memo[i]
        if e.num_args() == 0:
            memo[i] = e
            return e
        ch = [rw(c) for c in e.children()]
        if all(a.get_id() == b.get_id() for a, b in zip(ch, e.children())):
            r = e
        else:
            r = e.decl()(*ch)
        memo[i] = r
        return r

    return rw(term)


def is_tagged(e):
    return isinstance(e, z3.ExprRef) and z3.is_app(e) and e.decl().name() == "vtag"


def abstraction_maps(impl_next, ref_next, prefix):
    """inductive decomposition: once impl V_{t+1}[i] == ref V_{t+1}[i] is established for every i,
    both are replaced by the same fresh constant W_i in the period-t obligations (one Bellman step
    from an arbitrary next-period value array).  Returns (impl map, ref map, {W name: (impl term, ref term)})
    or None if some entry may be -inf (no abstraction then)."""
    mi, mr, defs = {}, {}, {}
    for key, (e, r) in enumerate(zip(impl_next, ref_next)):
        e, r = sj.force(e), sj.force(r)
        if isinstance(e, sj.XR) or isinstance(r, sj.XR) or sj.is_ninf_c(e) or sj.is_ninf_c(r):
            return None
        if not isinstance(e, z3.ExprRef) or not isinstance(r, z3.ExprRef):
            continue  # concrete entries need no abstraction
        if not (is_tagged(e) and is_tagged(r)):
            continue  # only syntactically unique (tagged) entries are abstracted
        W = z3.Real(f"{prefix}_{key}")
        mi[e.get_id()] = W
        mr[r.get_id()] = W
        defs[str(W)] = (e, r)
    return mi, mr, defs
