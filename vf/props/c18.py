"""C18 - maximisers returned by the arg-max primitives attain the maximum."""
from __future__ import annotations

import itertools

import numpy as np
import z3

from .. import symjax as sj
from ..harness import Conc, close

META = {
    "explanation": "lcm.argmax.argmax, lcm.argmax.segment_argmax and discrete_problem.get_solve_discrete_problem are executed "
    "symbolically on arrays of z3 reals and masks of z3 Bools (eager and inside jax.jit, also fed by an upstream producer "
    "3a+t computed in the same jitted computation); per output element the solver decides that the returned position is the "
    "first unmasked position attaining the masked maximum (0 if all masked), that the returned maximum is the masked maximum, "
    "and that max / segment_max reductions equal the maximum over all discrete choice combinations of each state. Ties are "
    "symbolic, so every tie pattern is covered.",
    "bounds": "argmax: shapes (3,), (4,), (2,3), (2,2,2), (3,2,2) [thorough: + (5,), (3,3), (2,3,2), (2,2,2,2)], every non-empty "
    "ordered subset of axes up to length 3 (and axis=None), with and without a symbolic `where` mask; segment_argmax: every sorted "
    "segmentation into non-empty segments of lengths <= 4 (thorough 5), trailing shapes () and (2,); discrete problem: the "
    "variable layouts of 6 model shapes with 2-3 labels per variable",
    "outside": "XLA may evaluate a fused producer twice with different rounding (floating-point compiler effect below the jaxpr) - "
    "not visible to a real-number encoding, nothing claimed; NaN entries; unsorted segment ids; shapes beyond the listed ones",
    "assumptions": ["array entries finite reals or -inf (segment_argmax: entries masked to -inf by a symbolic mask)", "segment ids sorted and covering 0..k-1 (as produced by lcm)"],
    "stubs": [],
}


def units(tier):
    shapes = [(3,), (4,), (2, 3), (2, 2, 2), (3, 2, 2)]
    if tier == "thorough":
        shapes += [(5,), (3, 3), (2, 3, 2), (2, 2, 2, 2)]
    out = []
    for s in shapes:
        for jit in (False, True):
            out.append((f"argmax{list(s)}[jit={jit}]", "u_argmax", {"shape": s, "jit": jit}))
    nmax = 4 if tier == "quick" else 5
    out.append((f"segment_argmax[n<={nmax}]", "u_segment_argmax", {"nmax": nmax, "trailing": ()}))
    out.append((f"segment_argmax[n<={nmax - 1},trailing=(2,)]", "u_segment_argmax", {"nmax": nmax - 1, "trailing": (2,)}))
    for name in DISCRETE_LAYOUTS:
        out.append((f"solve_discrete_problem[{name}]", "u_discrete", {"layout": name}))
    return out


def zmax_masked(vals, masks):
    """independent reference: (all_masked, max) over unmasked entries"""
    none = True
    best = None
    for v, m in zip(vals, masks):
        v = sj.zr(v)
        if best is None:
            best, none = v, sj.b_not(m)
        else:
            take = sj.b_and(m, sj.b_or(none, v > best))
            best = sj.ite(take, v, best)
            none = sj.b_and(none, sj.b_not(m))
    return none, best


def u_argmax(rec, shape, jit):
    import jax
    import jax.numpy as jnp
    from lcm.argmax import argmax

    S = sj.Session()
    A = S.real("a", shape)
    M = S.bool("m", shape)
    s_ = S.real("s")
    t_ = S.real("t")
    rec.symbols = S.symbols
    At, Mt = sj.terms(A), sj.terms(M)
    rank = len(shape)
    axes_list = [None] + [ax for k in range(1, min(rank, 3) + 1) for ax in itertools.permutations(range(rank), k)]
    for axis in axes_list:
        for with_where in (False, True):
            for fused in ((False, True) if jit else (False,)):
                tag = f"axis={axis},where={with_where},fused={fused}"

                def f(a, m, s, t, axis=axis, with_where=with_where, fused=fused):
                    if fused:
                        a = a * 3.0 + t + 0.0 * s  # producer inside the same jitted computation (kept linear)
                    if with_where:
                        return argmax(a, axis=axis, initial=-jnp.inf, where=m)
                    return argmax(a, axis=axis)

                g = jax.jit(f) if jit else f
                idx, mx = S.run(g, A, M, s_, t_)
                idx_t, mx_t = sj.terms(idx), sj.terms(mx)
                ax = tuple(range(rank)) if axis is None else ((axis,) if isinstance(axis, int) else tuple(axis))
                front = [d for d in range(rank) if d not in ax]
                fshape = tuple(shape[d] for d in front)
                assert idx_t.shape == fshape and mx_t.shape == fshape, (idx_t.shape, fshape)
                rshape = tuple(shape[d] for d in ax)

                def concrete(vals, axis=axis, with_where=with_where, fused=fused, g=g):
                    C = Conc(vals)
                    i, m = g(C.real("a", shape), C.bool("m", shape), C.real("s"), C.real("t"))
                    return np.asarray(i), np.asarray(m)

                sym = S.symbols
                pre = []
                for fi in np.ndindex(*fshape):
                    # elements of this slice in row-major order of the listed axes
                    vals, masks = [], []
                    for ri in np.ndindex(*rshape):
                        full = [None] * rank
                        for d, i in zip(front, fi):
                            full[d] = i
                        for d, i in zip(ax, ri):
                            full[d] = i
                        v = At[tuple(full)]
                        if fused:
                            v = sj.zr(v) * 3 + sym["t"]
                        vals.append(v)
                        masks.append(Mt[tuple(full)] if with_where else True)
                    got_i = idx_t[fi]
                    got_m = mx_t[fi]
                    gn, gv = sj.split_x(sj.force(got_m))
                    gvz = sj.zr(gv)
                    none = sj.b_all([sj.b_not(m) for m in masks])
                    npos = len(vals)
                    # characterisation of the masked maximum (no second max-chain to compare with):
                    #  (a) -inf flag iff everything is masked; (b) upper bound of every unmasked entry;
                    #  (c) attained by some unmasked entry
                    claims = [("max-flag", sj.ite_b(none, gn, sj.b_not(gn)))]
                    for p, (v, m) in enumerate(zip(vals, masks)):
                        claims.append((f"max-ub{p}", sj.ite_b(m, gvz >= sj.zr(v), True)))
                    claims.append(("max-attained", sj.b_or(none, sj.b_any([sj.b_and(m, gvz == sj.zr(v)) for v, m in zip(vals, masks)]))))
                    # position: in range; all masked -> 0; position p returned -> p unmasked, attains the
                    # maximum, and no earlier unmasked entry attains it (first on ties)
                    claims.append(("pos-range", sj.b_and(sj._cmp("ge", got_i, 0), sj._cmp("lt", got_i, npos))))
                    claims.append(("pos-allmasked", sj.ite_b(none, sj._cmp("eq", got_i, 0), True)))
                    for p, (v, m) in enumerate(zip(vals, masks)):
                        earlier = sj.b_any([sj.b_and(mq, sj.zr(vq) == gvz) for vq, mq in list(zip(vals, masks))[:p]])
                        ok = sj.b_and(sj.b_and(m, sj.zr(v) == gvz), sj.b_not(earlier))
                        claims.append((f"pos{p}", sj.ite_b(sj.b_and(sj.b_not(none), sj._cmp("eq", got_i, p)), ok, True)))

                    def replay(vals_, fi=fi, concrete=concrete, front=front, ax=ax, with_where=with_where, fused=fused):
                        i_obs, m_obs = concrete(vals_)
                        a = np.empty(shape)
                        mk = np.empty(shape, dtype=bool)
                        for ii in np.ndindex(*shape):
                            nm = "_".join(map(str, ii))
                            a[ii] = float(vals_["a_" + nm])
                            mk[ii] = bool(vals_["m_" + nm]) if with_where else True
                        if fused:
                            a = a * 3.0 + float(vals_["t"])
                        at = np.transpose(a, front + list(ax)).reshape(fshape + (-1,))[fi]
                        mt = np.transpose(mk, front + list(ax)).reshape(fshape + (-1,))[fi]
                        if mt.any():
                            emax = at[mt].max()
                            epos = int(np.argmax((at == emax) & mt))
                        else:
                            emax, epos = float("-inf"), 0
                        if int(i_obs[fi]) == epos and close(m_obs[fi], emax):
                            return None
                        return {"what": "argmax position/max differs from first unmasked maximiser", "observed": [int(i_obs[fi]), float(m_obs[fi])], "expected": [epos, float(emax)], "config": tag}

                    for cname, cl in claims:
                        rec.prove(f"{cname}[{tag}]{fi}", cl, pre, replay=replay)
    rec.primitives = S.trace.stats

    # translator validation on the repo's own kind of inputs (ties, masks)
    def cf(vals):
        C = Conc(vals)
        i, m = argmax(C.real("a", shape), axis=None, initial=-jnp.inf, where=C.bool("m", shape))
        return [int(i), float(m)]

    idx, mx = S.run(lambda a, m: argmax(a, axis=None, initial=-jnp.inf, where=m), A, M)
    rec.validate("argmax", [sj.scalar(idx), sj.scalar(mx)], cf, S.symbols, n=3)
    return {"bounds": {"shape": list(shape), "jit": jit, "axes": len(axes_list)}, "symbols": len(S.symbols)}


def compositions(n):
    """all tuples of positive ints summing to n"""
    if n == 0:
        yield ()
        return
    for first in range(1, n + 1):
        for rest in compositions(n - first):
            yield (first, *rest)


def u_segment_argmax(rec, nmax, trailing):
    import jax
    import jax.numpy as jnp
    from lcm.argmax import segment_argmax

    for n in range(1, nmax + 1):
        for comp in compositions(n):
            seg_ids = np.repeat(np.arange(len(comp)), comp)
            k = len(comp)
            for jit, with_inf in ((False, False), (True, False), (True, True)):
                S = sj.Session()
                D = S.real("d", (n, *trailing))
                Mk = S.bool("m", (n, *trailing))
                rec.symbols = S.symbols
                if with_inf:
                    # entries may be -inf (infeasible rows carry -inf in lcm): data = where(m, d, -inf)
                    f = lambda d, m: segment_argmax(jnp.where(m, d, -jnp.inf), jnp.asarray(seg_ids), k)  # noqa: E731
                else:
                    f = lambda d, m: segment_argmax(d, jnp.asarray(seg_ids), k)  # noqa: E731
                g = jax.jit(f) if jit else f
                idx, mx = S.run(g, D, Mk)
                Dt, Mt, it, mt = sj.terms(D), sj.terms(Mk), sj.terms(idx), sj.terms(mx)
                assert it.shape == (k, *trailing) == mt.shape

                def concrete(vals):
                    C = Conc(vals)
                    i, m = g(C.real("d", (n, *trailing)), C.bool("m", (n, *trailing)))
                    return np.asarray(i), np.asarray(m)

                for s in range(k):
                    rows = [r for r in range(n) if seg_ids[r] == s]
                    for ti in np.ndindex(*trailing):
                        vals = [Dt[(r, *ti)] for r in rows]
                        masks = [Mt[(r, *ti)] if with_inf else True for r in rows]
                        none, best = zmax_masked(vals, masks)
                        gi, gm = it[(s, *ti)], mt[(s, *ti)]
                        gn, gv = sj.split_x(sj.force(gm))
                        claim_m = sj.b_and(sj.ite_b(none, gn, sj.b_not(gn)), sj.b_or(none, sj._cmp("eq", gv, best)))
                        # returned row lies in the segment and attains the maximum (-inf == -inf if all entries are -inf)
                        claim_i = sj.b_any([sj.b_and(sj._cmp("eq", gi, r), sj.ite_b(none, True, sj.b_and(mk_, sj._cmp("eq", sj.zr(Dt[(r, *ti)]), best)))) for r, mk_ in zip(rows, masks)])

                        def replay(vals_, s=s, ti=ti, rows=rows, concrete=concrete, with_inf=with_inf):
                            i_obs, m_obs = concrete(vals_)
                            d = np.array([float(vals_["d_" + "_".join(map(str, (r, *ti)))]) if (not with_inf or vals_.get("m_" + "_".join(map(str, (r, *ti))), False)) else float("-inf") for r in rows])
                            r_obs = int(i_obs[(s, *ti)])
                            if r_obs in rows and close(m_obs[(s, *ti)], d.max()) and d[rows.index(r_obs)] == d.max():
                                return None
                            return {"what": "segment_argmax row does not attain the segment maximum / is not a row of the segment", "observed": [r_obs, float(m_obs[(s, *ti)])], "expected": [[rows[j] for j in np.flatnonzero(d == d.max())], float(d.max())], "segments": list(map(int, seg_ids)), "data": d.tolist()}

                        tag = f"seg={list(comp)},jit={jit},-inf={with_inf}"
                        rec.prove(f"segmax[{tag}]{(s, *ti)}", claim_m, [], replay=replay)
                        rec.prove(f"segarg[{tag}]{(s, *ti)}", claim_i, [], replay=replay)
            rec.primitives = {**getattr(rec, "primitives", {}), **S.trace.stats}
    # translator validation with the repo's test input (tests/test_argmax.py::test_segment_argmax_ties)
    S = sj.Session()
    D = S.real("d", (4,))
    ids = jnp.asarray([0, 0, 1, 1])
    idx, mx = S.run(lambda d: segment_argmax(d, ids, 2), D)
    rec.validate(
        "segment_argmax",
        list(sj.terms(idx).reshape(-1)) + list(sj.terms(mx).reshape(-1)),
        lambda vals: [float(x) for part in segment_argmax(Conc(vals).real("d", (4,)), ids, 2) for x in np.asarray(part).reshape(-1)],
        S.symbols,
        n=3,
    )
    return {"bounds": {"rows<=": nmax, "trailing": list(trailing)}}


# ----------------------------------------------------------------------------------
# discrete problem: layouts taken from real variable_info tables of small models
# ----------------------------------------------------------------------------------
def _models():
    from dataclasses import make_dataclass

    import jax.numpy as jnp
    from lcm import DiscreteGrid, LinspaceGrid, Model

    def dg(n):
        return DiscreteGrid(make_dataclass(f"L{n}", [(f"c{i}", int, i) for i in range(n)]))

    W = LinspaceGrid(start=1, stop=5, n_points=3)
    C = LinspaceGrid(start=1, stop=3, n_points=2)
    out = {}
    out["dense: state h(3), choices d(2), e(3)"] = Model(
        n_periods=2,
        functions=dict(utility=lambda h, d, e, w, c: h + d + e + w + c, next_h=lambda h: h, next_w=lambda w: w),
        choices=dict(d=dg(2), e=dg(3), c=C),
        states=dict(h=dg(3), w=W),
    )
    out["sparse state+choice, no dense choice"] = Model(
        n_periods=2,
        functions=dict(utility=lambda s, d, w: s + d + w, next_s=lambda d: d, next_w=lambda w: w, abs_filter=lambda s, d: jnp.logical_or(d == 1, s == 0)),
        choices=dict(d=dg(2)),
        states=dict(s=dg(2), w=W),
    )
    out["sparse state+choice + dense choice e(3) + dense state h(2)"] = Model(
        n_periods=2,
        functions=dict(
            utility=lambda s, d, e, h, w, c: s + d + e + h + w + c,
            next_s=lambda d: d,
            next_h=lambda h: h,
            next_w=lambda w: w,
            abs_filter=lambda s, d: jnp.logical_or(d == 1, s == 0),
        ),
        choices=dict(d=dg(2), e=dg(3), c=C),
        states=dict(s=dg(2), h=dg(2), w=W),
    )
    out["two sparse choices, sparse state(3)"] = Model(
        n_periods=2,
        functions=dict(utility=lambda s, d, g: s + d + g, next_s=lambda s: s, f_filter=lambda s, d, g: d + g <= s),
        choices=dict(d=dg(2), g=dg(2)),
        states=dict(s=dg(3)),
    )
    out["filter on states only + dense choice"] = Model(
        n_periods=2,
        functions=dict(utility=lambda s, t, d: s + t + d, next_s=lambda s: s, next_t=lambda t: t, st_filter=lambda s, t: s <= t),
        choices=dict(d=dg(2)),
        states=dict(s=dg(2), t=dg(3)),
    )
    out["auxiliary dense state a(2) (only in next_h) + dense state h(3) + dense choices d(2), e(3)"] = Model(
        n_periods=2,
        functions=dict(utility=lambda h, d, e, w, c: h + d + e + w + c, next_h=lambda h, a: (h + a) % 3, next_a=lambda a: a, next_w=lambda w: w),
        choices=dict(d=dg(2), e=dg(3), c=C),
        states=dict(a=dg(2), h=dg(3), w=W),
    )
    out["no discrete choice at all"] = Model(
        n_periods=2,
        functions=dict(utility=lambda h, w, c: h + w + c, next_h=lambda h: h, next_w=lambda w: w),
        choices=dict(c=C),
        states=dict(h=dg(2), w=W),
    )
    return out


DISCRETE_LAYOUTS = [
    "dense: state h(3), choices d(2), e(3)",
    "sparse state+choice, no dense choice",
    "sparse state+choice + dense choice e(3) + dense state h(2)",
    "two sparse choices, sparse state(3)",
    "filter on states only + dense choice",
    "no discrete choice at all",
    "auxiliary dense state a(2) (only in next_h) + dense state h(3) + dense choices d(2), e(3)",
]


def u_discrete(rec, layout):
    """ccv array with the documented axes [sparse rows?, dense non-continuous-choice vars...];
    result[state] must be the max over all discrete choice combinations of that state."""
    import jax
    from lcm.discrete_problem import get_solve_discrete_problem
    from lcm.input_processing import process_model
    from lcm.state_space import create_state_choice_space
    from lcm.typing import ShockType

    model = _models()[layout]
    im = process_model(model)
    vi = im.variable_info
    for period, is_last in ((0, False), (1, True)):
        space, _info, _indexer, segments = create_state_choice_space(im, period=period, is_last_period=is_last, jit_filter=False)
        calc = get_solve_discrete_problem(random_utility_shock_type=ShockType.NONE, variable_info=vi, is_last_period=is_last, choice_segments=segments)
        # the documented layout of the conditional continuation values (user-facing info only);
        # auxiliary states (used by transition functions only) are not part of the last period's space
        aux = (lambda v: bool(vi.loc[v, "is_auxiliary"])) if is_last and "is_auxiliary" in vi.columns else (lambda v: False)
        sparse = [v for v in vi.index if vi.loc[v, "is_sparse"] and not aux(v)]
        dense = [v for v in vi.index if vi.loc[v, "is_dense"] and not (vi.loc[v, "is_choice"] and vi.loc[v, "is_continuous"]) and not aux(v)]
        sizes = {v: len(im.grids[v]) for v in vi.index}
        nrows = len(next(iter(space.sparse_vars.values()))) if sparse else None
        shape = (() if nrows is None else (nrows,)) + tuple(sizes[v] for v in dense)
        for jit in (False, True):
            S = sj.Session()
            Vv = S.real("q", shape)
            rec.symbols = S.symbols
            g = jax.jit(lambda v: calc(v, params={})) if jit else (lambda v: calc(v, params={}))
            out = sj.terms(S.run(g, Vv))
            Qt = sj.terms(Vv)
            # states: sparse state combos (distinct tuples, in stored order) x dense states
            sparse_states = [v for v in sparse if vi.loc[v, "is_state"]]
            dense_states = [v for v in dense if vi.loc[v, "is_state"]]
            dense_choices = [v for v in dense if vi.loc[v, "is_choice"]]
            if sparse:
                rows_state = [tuple(int(space.sparse_vars[v][r]) for v in sparse_states) for r in range(nrows)]
                groups = []
                for r, st in enumerate(rows_state):
                    if not groups or groups[-1][0] != st:
                        groups.append((st, []))
                    groups[-1][1].append(r)
                assert len({g_[0] for g_ in groups}) == len(groups)
            else:
                groups = None
            exp_shape = (() if groups is None else (len(groups),)) + tuple(sizes[v] for v in dense_states)
            if out.shape != exp_shape:
                rec.violation(f"shape[{period},jit={jit}]", {"what": "reduced array has wrong shape", "observed": list(out.shape), "expected": list(exp_shape)})
                continue

            def concrete(vals, g=g, shape=shape):
                return np.asarray(g(Conc(vals).real("q", shape)))

            for gi in range(len(groups)) if groups is not None else [None]:
                for dsi in np.ndindex(*[sizes[v] for v in dense_states]):
                    cand = []
                    for r in groups[gi][1] if groups is not None else [None]:
                        for dci in np.ndindex(*[sizes[v] for v in dense_choices]):
                            full = [] if r is None else [r]
                            di = dict(zip(dense_states, dsi)) | dict(zip(dense_choices, dci))
                            full += [di[v] for v in dense]
                            cand.append(tuple(full))
                    _, best = zmax_masked([Qt[c] for c in cand], [True] * len(cand))
                    oi = (() if gi is None else (gi,)) + tuple(dsi)

                    def replay(vals, oi=oi, cand=cand, concrete=concrete):
                        obs = concrete(vals)[oi]
                        exp = max(float(vals["q_" + "_".join(map(str, c))] if c else vals["q"]) for c in cand)
                        if close(obs, exp):
                            return None
                        return {"what": "reduction over discrete choices is not the maximum over all choice combinations", "observed": float(obs), "expected": exp}

                    rec.prove(f"emax[{period},jit={jit}]{oi}", sj._cmp("eq", out[oi], best), [], replay=replay)
            rec.primitives = {**getattr(rec, "primitives", {}), **S.trace.stats}
    return {"bounds": {"layout": layout}}
