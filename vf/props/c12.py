"""C12 - specifications are rejected up front or run to completion."""
from __future__ import annotations

import numpy as np

from .. import symjax as sj
from ..harness import Conc
from ..templates import dg, lin
from .pipeline import get_function

META = {
    "explanation": "(i) CrossHair on the real Model constructor with pooled names and symbolic flags: ModelInitilizationError is raised "
    "exactly when a documented rule is violated (fewer than one period, no utility, a state without next_ function, a name used as "
    "state and choice, non-grid / non-callable / non-dict / non-str entries), for all combinations of violations at once and never "
    "another exception; the grid constructors likewise (harness shared with C16). (ii) specifications that violate a rule which is "
    "only detectable when the functions are created (stochastic transition of / depending on a continuous variable, filter with "
    "parameters) must raise ValueError in get_lcm_function. (iii) converse, per model shape of a catalogue: accepted => "
    "jax.make_jaxpr(solve)(params) succeeds - abstract tracing shows that no Python-level error can occur for ANY parameter values of "
    "the template's shapes - and the simulate function, executed symbolically with symbolic params, value arrays and continuous "
    "initial states, completes on every path (all filter-mask patterns); shapes the symbolic engine cannot follow are run "
    "concretely and reported as such. The import of the entry point itself is part of (iii).",
    "bounds": "catalogue of model shapes listed in evidence (every template of vf/templates.py plus edge shapes: no choices, no states, "
    "one period, one-point grids, filters on choices only / states only / period, auxiliary states, shadowed names, log grids, ...); "
    "2 agents, path cap 64",
    "outside": "model shapes outside the catalogue",
    "assumptions": ["parameters follow the template (finite values)"],
    "stubs": [],
}


def catalogue():
    """name -> (model kwargs builder, initial states builder(n))"""
    import jax.numpy as jnp
    import lcm
    from lcm import LogspaceGrid

    W = lambda: lin(1, 5, 5)  # noqa: E731
    C = lambda: lin(1, 3, 3)  # noqa: E731
    w0 = lambda n: {"wealth": jnp.linspace(1.0, 2.5, n)}  # noqa: E731
    cat = {}

    def add(name, kwargs, init):
        cat[name] = (kwargs, init)

    u_wc = lambda wealth, c: c * 1.0 + 0 * wealth  # noqa: E731
    add("baseline cont state+cont choice+constraint", lambda: dict(n_periods=2, functions=dict(utility=u_wc, next_wealth=lambda wealth, c: wealth - c, cc_constraint=lambda c, wealth: c <= wealth), choices=dict(c=C()), states=dict(wealth=W())), w0)
    add("no constraint", lambda: dict(n_periods=2, functions=dict(utility=u_wc, next_wealth=lambda wealth, c: wealth - c), choices=dict(c=C()), states=dict(wealth=W())), w0)
    add("one period", lambda: dict(n_periods=1, functions=dict(utility=u_wc, next_wealth=lambda wealth, c: wealth - c), choices=dict(c=C()), states=dict(wealth=W())), w0)
    add("three periods", lambda: dict(n_periods=3, functions=dict(utility=u_wc, next_wealth=lambda wealth, c: wealth - c), choices=dict(c=C()), states=dict(wealth=W())), w0)
    add("state unused in utility/constraint (upstream issue #30)", lambda: dict(n_periods=2, functions=dict(utility=lambda c: c * 1.0, next_wealth=lambda wealth, c: wealth - c), choices=dict(c=C()), states=dict(wealth=W())), w0)
    add("no choices at all", lambda: dict(n_periods=2, functions=dict(utility=lambda wealth: wealth * 1.0, next_wealth=lambda wealth: wealth), choices={}, states=dict(wealth=W())), w0)
    add("no states at all", lambda: dict(n_periods=2, functions=dict(utility=lambda c: c * 1.0), choices=dict(c=C()), states={}), lambda n: {})
    add("only a discrete choice", lambda: dict(n_periods=2, functions=dict(utility=lambda wealth, d: d * 1.0 + 0 * wealth, next_wealth=lambda wealth, d: wealth - d), choices=dict(d=dg(2)), states=dict(wealth=W())), w0)
    add("fully discrete", lambda: dict(n_periods=2, functions=dict(utility=lambda s, d: d * 1.0 + s, next_s=lambda s, d: d), choices=dict(d=dg(2)), states=dict(s=dg(2))), lambda n: {"s": jnp.arange(n) % 2})
    add("filter on state+choice", lambda: dict(n_periods=2, functions=dict(utility=lambda s, d, wealth: d * 1.0 + s + 0 * wealth, next_s=lambda d: d, next_wealth=lambda wealth: wealth, abs_filter=lambda s, d: jnp.logical_or(d == 1, s == 0)), choices=dict(d=dg(2)), states=dict(s=dg(2), wealth=W())), lambda n: {"s": jnp.arange(n) % 2, "wealth": jnp.linspace(1.0, 2.0, n)})
    add("filter on states only", lambda: dict(n_periods=2, functions=dict(utility=lambda s, t, d: d * 1.0 + s + t, next_s=lambda s: s, next_t=lambda t: t, st_filter=lambda s, t: s <= t), choices=dict(d=dg(2)), states=dict(s=dg(2), t=dg(2))), lambda n: {"s": jnp.zeros(n, dtype=int), "t": jnp.arange(n) % 2})
    add("filter on choices only", lambda: dict(n_periods=2, functions=dict(utility=lambda s, d, e: d * 1.0 + s + e, next_s=lambda s: s, de_filter=lambda d, e: d <= e), choices=dict(d=dg(2), e=dg(2)), states=dict(s=dg(2))), lambda n: {"s": jnp.arange(n) % 2})
    add("filter through an auxiliary function", lambda: dict(n_periods=2, functions=dict(utility=lambda s, d: d * 1.0 + s, next_s=lambda s: s, helper=lambda s, d: s + d, h_filter=lambda helper: helper <= 1), choices=dict(d=dg(2)), states=dict(s=dg(2))), lambda n: {"s": jnp.arange(n) % 2})
    add("filter on choices only + continuous state", lambda: dict(n_periods=2, functions=dict(utility=lambda wealth, d, e: d * 1.0 + e + 0 * wealth, next_wealth=lambda wealth, d: wealth - d * 0.5, de_filter=lambda d, e: d <= e), choices=dict(d=dg(2), e=dg(2)), states=dict(wealth=W())), w0)
    add("filter on period + choice", lambda: dict(n_periods=2, functions=dict(utility=lambda s, d: d * 1.0 + s, next_s=lambda s: s, p_filter=lambda d, _period: d <= _period), choices=dict(d=dg(2)), states=dict(s=dg(2))), lambda n: {"s": jnp.arange(n) % 2})
    add("filter on a continuous state", lambda: dict(n_periods=2, functions=dict(utility=lambda wealth, d: d * 1.0 + wealth, next_wealth=lambda wealth: wealth, w_filter=lambda wealth, d: d <= wealth), choices=dict(d=dg(2)), states=dict(wealth=W())), w0)
    add("filter + unrestricted discrete choice + cont choice", lambda: dict(n_periods=2, functions=dict(utility=lambda s, d, e, c, wealth: d * 1.0 + s + e + c + 0 * wealth, next_s=lambda d: d, next_wealth=lambda wealth, c: wealth - c, abs_filter=lambda s, d: jnp.logical_or(d == 1, s == 0)), choices=dict(d=dg(2), e=dg(3), c=C()), states=dict(s=dg(2), wealth=W())), lambda n: {"s": jnp.arange(n) % 2, "wealth": jnp.linspace(1.0, 2.0, n)})

    @lcm.mark.stochastic
    def next_h(h):
        pass

    @lcm.mark.stochastic
    def next_h2(h, d, _period):
        pass

    add("stochastic state", lambda: dict(n_periods=2, functions=dict(utility=lambda h, d: d * 1.0 + h, next_h=next_h), choices=dict(d=dg(2)), states=dict(h=dg(2))), lambda n: {"h": jnp.arange(n) % 2})
    add("stochastic depending on choice and period", lambda: dict(n_periods=2, functions=dict(utility=lambda h, d: d * 1.0 + h, next_h=next_h2), choices=dict(d=dg(2)), states=dict(h=dg(3))), lambda n: {"h": jnp.arange(n) % 3})
    @lcm.mark.stochastic
    def next_skill(skill, d):
        pass

    add(
        "two stochastic states of different size, next_* declared in another order than the states",
        lambda: dict(n_periods=3, functions=dict(utility=lambda h, skill, d: d * 1.0 + h + skill, next_skill=next_skill, next_h=next_h), choices=dict(d=dg(2)), states=dict(h=dg(2), skill=dg(3))),
        lambda n: {"h": jnp.arange(n) % 2, "skill": jnp.arange(n) % 3},
    )
    add("stochastic + filter", lambda: dict(n_periods=2, functions=dict(utility=lambda h, s, d: d * 1.0 + h + s, next_h=next_h, next_s=lambda d: d, abs_filter=lambda s, d: jnp.logical_or(d == 1, s == 0)), choices=dict(d=dg(2)), states=dict(h=dg(2), s=dg(2))), lambda n: {"h": jnp.arange(n) % 2, "s": jnp.arange(n) % 2})
    add("continuous state grid with one point", lambda: dict(n_periods=2, functions=dict(utility=u_wc, next_wealth=lambda wealth, c: wealth - c), choices=dict(c=C()), states=dict(wealth=lin(1, 2, 1))), lambda n: {"wealth": jnp.ones(n)})
    add("continuous choice grid with one point", lambda: dict(n_periods=2, functions=dict(utility=u_wc, next_wealth=lambda wealth, c: wealth - c), choices=dict(c=lin(1, 2, 1)), states=dict(wealth=W())), w0)
    add("discrete grid with one label", lambda: dict(n_periods=2, functions=dict(utility=lambda s, d: d * 1.0 + s, next_s=lambda s: s), choices=dict(d=dg(1)), states=dict(s=dg(1))), lambda n: {"s": jnp.zeros(n, dtype=int)})
    add("log grid state", lambda: dict(n_periods=2, functions=dict(utility=u_wc, next_wealth=lambda wealth, c: wealth + c), choices=dict(c=C()), states=dict(wealth=LogspaceGrid(start=1, stop=16, n_points=5))), w0)
    add("log grid choice", lambda: dict(n_periods=2, functions=dict(utility=u_wc, next_wealth=lambda wealth, c: wealth - c * 0.5), choices=dict(c=LogspaceGrid(start=1, stop=4, n_points=3)), states=dict(wealth=W())), w0)
    add("two cont states, two cont choices", lambda: dict(n_periods=2, functions=dict(utility=lambda w, v, c, e: c + e + 0 * w + 0 * v, next_w=lambda w, c: w - c, next_v=lambda v, e: v - e), choices=dict(c=C(), e=lin(0, 1, 2)), states=dict(w=W(), v=lin(0, 2, 3))), lambda n: {"w": jnp.linspace(1.0, 2.0, n), "v": jnp.linspace(0.5, 1.0, n)})
    add("auxiliary function with parameter and period", lambda: dict(n_periods=2, functions=dict(utility=lambda wealth, c, inc: c + inc + 0 * wealth, inc=lambda _period, k: _period * k, next_wealth=lambda wealth, c, inc: wealth - c + inc), choices=dict(c=C()), states=dict(wealth=W())), w0)
    add("constraint with parameter", lambda: dict(n_periods=2, functions=dict(utility=u_wc, next_wealth=lambda wealth, c: wealth - c, b_constraint=lambda c, wealth, lim: c <= wealth + lim), choices=dict(c=C()), states=dict(wealth=W())), w0)
    add("auxiliary state (only in next functions)", lambda: dict(n_periods=2, functions=dict(utility=u_wc, next_wealth=lambda wealth, c, k: wealth - c + k, next_k=lambda k: k), choices=dict(c=C()), states=dict(wealth=W(), k=dg(2))), lambda n: {"wealth": jnp.linspace(1.0, 2.0, n), "k": jnp.arange(n) % 2})
    add("function named like a state", lambda: dict(n_periods=2, functions=dict(utility=u_wc, next_wealth=lambda wealth, c: wealth - c, wealth=lambda c: c), choices=dict(c=C()), states=dict(wealth=W())), w0)
    add("auxiliary function chain", lambda: dict(n_periods=2, functions=dict(utility=lambda c, a2: c + a2, a1=lambda wealth: wealth * 2.0, a2=lambda a1, c: a1 - c, next_wealth=lambda wealth, a2: wealth + 0 * a2), choices=dict(c=C()), states=dict(wealth=W())), w0)
    add("two constraints and two filters", lambda: dict(n_periods=2, functions=dict(utility=lambda s, d, e, c, wealth: d + e + s + c + 0 * wealth, next_s=lambda d: d, next_wealth=lambda wealth, c: wealth - c, a_constraint=lambda c, wealth: c <= wealth, b_constraint=lambda c: c >= 1, x_filter=lambda s, d: jnp.logical_or(d == 1, s == 0), y_filter=lambda d, e: d + e <= 1), choices=dict(d=dg(2), e=dg(2), c=C()), states=dict(s=dg(2), wealth=W())), lambda n: {"s": jnp.arange(n) % 2, "wealth": jnp.linspace(1.0, 2.0, n)})
    add("state with period-dependent transition and filter", lambda: dict(n_periods=3, functions=dict(utility=lambda s, d: d * 1.0 + s, next_s=lambda s, d, _period: jnp.where(_period == 0, d, s), p_filter=lambda d, s, _period: jnp.logical_or(d <= _period, s == 1)), choices=dict(d=dg(2)), states=dict(s=dg(2))), lambda n: {"s": jnp.arange(n) % 2})
    return cat


REJECT = {
    # name -> builder of Model kwargs that must be rejected by get_lcm_function with ValueError
}


def reject_catalogue():
    import lcm

    W = lin(1, 5, 5)
    C = lin(1, 3, 3)
    u_wc = lambda wealth, c: c * 1.0 + 0 * wealth  # noqa: E731
    return {
        "filter with a parameter": dict(n_periods=2, functions=dict(utility=lambda s, d: d * 1.0 + s, next_s=lambda s: s, p_filter=lambda d, s, k: d <= s + k), choices=dict(d=dg(2)), states=dict(s=dg(2))),
        "stochastic transition of a continuous state": dict(n_periods=2, functions=dict(utility=u_wc, next_wealth=lcm.mark.stochastic(lambda wealth: None)), choices=dict(c=C), states=dict(wealth=W)),
        "stochastic transition depending on a continuous state": dict(n_periods=2, functions=dict(utility=lambda h, wealth, c: c + h + 0 * wealth, next_h=lcm.mark.stochastic(lambda h, wealth: None), next_wealth=lambda wealth, c: wealth - c), choices=dict(c=C), states=dict(h=dg(2), wealth=W)),
        "stochastic transition depending on a continuous choice": dict(n_periods=2, functions=dict(utility=lambda h, c: c + h, next_h=lcm.mark.stochastic(lambda h, c: None)), choices=dict(c=C), states=dict(h=dg(2))),
        "state without transition, function named like the state": dict(n_periods=2, functions=dict(utility=u_wc, wealth=lambda wealth, c: wealth - c), choices=dict(c=C), states=dict(wealth=W)),
        "state without transition, function with a look-alike name": dict(n_periods=2, functions=dict(utility=u_wc, xnext_wealth=lambda wealth, c: wealth - c), choices=dict(c=C), states=dict(wealth=W)),
        "stochastic transition depending on an auxiliary function": dict(n_periods=2, functions=dict(utility=lambda h, d: d + h, aux=lambda h: h, next_h=lcm.mark.stochastic(lambda aux: None)), choices=dict(d=dg(2)), states=dict(h=dg(2))),
    }


def units(tier):
    out = [("crosshair[Model validation]", "u_crosshair", {"timeout": 200 if tier == "quick" else 400})]
    out.append(("import entry point", "u_import", {}))
    out.append(("rejected at creation", "u_reject", {}))
    for name in catalogue():
        out.append((f"accepted:{name}", "u_accepted", {"name": name}))
    return out


def u_crosshair(rec, timeout):
    from ..crosshair_run import run_crosshair

    run_crosshair(rec, "/verif/ch/c12_model.py", timeout)
    return {"bounds": {"per_condition_timeout_s": timeout}}


def u_import(rec):
    """the entry point must be importable in a fresh interpreter WITHOUT any compatibility shim"""
    import subprocess
    import sys

    p = subprocess.run([sys.executable, "-c", "import lcm.entry_point, lcm.ndimage; from lcm.entry_point import get_lcm_function"], capture_output=True, text=True, cwd="/")
    if p.returncode == 0:
        rec.obligations.append({"name": "import lcm.entry_point", "unit": rec.unit, "verdict": "const"})
    else:
        rec.violation("import lcm.entry_point", {"what": "importing the entry point fails: no accepted model can be solved or simulated", "observed": p.stderr.strip().splitlines()[-1][:300], "expected": "import succeeds", "inputs": {}}, key="import/lcm.entry_point")
    return {}


def u_reject(rec):
    from lcm import Model
    from lcm.entry_point import get_lcm_function
    from lcm.exceptions import ModelInitilizationError

    for name, kwargs in reject_catalogue().items():
        for target in ("solve", "simulate", "solve_and_simulate"):
            try:
                m = Model(**kwargs)
                get_lcm_function(m, targets=target)
            except (ValueError, ModelInitilizationError):
                rec.obligations.append({"name": f"{name}/{target}", "unit": rec.unit, "verdict": "const"})
                continue
            except Exception as e:  # noqa: BLE001
                rec.violation(f"{name}/{target}", {"what": "invalid specification is rejected with the wrong exception", "observed": f"{type(e).__name__}: {str(e)[:200]}", "expected": "ValueError / ModelInitilizationError at creation", "inputs": {}}, key=f"rejected/{name}")
                continue
            rec.violation(f"{name}/{target}", {"what": "invalid specification is accepted by get_lcm_function", "observed": "accepted", "expected": "ValueError at creation", "inputs": {}}, key=f"rejected/{name}")
    return {"bounds": {"shapes": len(reject_catalogue())}}


def fill(tmpl, mk, path=""):
    """params following the template: a finite value for every entry (symbolic or concrete)"""
    out = {}
    for k, v in tmpl.items():
        name = (path + "_" + k) if path else k
        if isinstance(v, dict):
            out[k] = fill(v, mk, name)
        elif hasattr(v, "shape") and tuple(v.shape) != ():
            out[k] = mk.real("p_" + name, tuple(v.shape))
        else:
            out[k] = mk.real("p_" + name)
    return out


def u_accepted(rec, name):
    import jax
    import jax.numpy as jnp
    from lcm import Model
    from lcm.exceptions import ModelInitilizationError

    kwargs_b, init_b = catalogue()[name]
    key = f"accepted/{name}"
    try:
        model = Model(**kwargs_b())
        solve, tmpl = get_function(model, "solve", True)
        sim, _ = get_function(model, "simulate", True)
    except (ModelInitilizationError, ValueError) as e:
        # rejected up front with the documented exceptions: allowed by the property
        rec.obligations.append({"name": f"{name}: rejected at creation ({type(e).__name__})", "unit": rec.unit, "verdict": "const"})
        return {"bounds": {"shape": name, "outcome": "rejected at creation"}}
    except Exception as e:  # noqa: BLE001
        rec.violation("creation", {"what": "creating the functions fails with an internal error", "observed": f"{type(e).__name__}: {str(e)[:200]}", "expected": "ValueError/ModelInitilizationError or success", "inputs": {}}, key=key)
        return {"bounds": {"shape": name}}
    n = 2
    defaults = {}

    def conc_params():
        C = Conc(defaults)
        p = fill(tmpl, C)
        # probabilities: uniform rows; everything else 0.5
        def fix(d, path=()):
            for k, v in d.items():
                if isinstance(v, dict):
                    fix(v, path + (k,))
                else:
                    a = np.asarray(v)
                    if path and path[0] == "shocks":
                        d[k] = jnp.full(a.shape, 1.0 / a.shape[-1])
                    else:
                        d[k] = jnp.full(a.shape, 0.5) if a.shape else 0.5
        fix(p)
        return p

    # (a) abstract tracing of solve: no Python-level error for any parameter values of these shapes
    try:
        jaxpr = jax.make_jaxpr(solve)(conc_params())
        V = solve(conc_params())
        rec.obligations.append({"name": f"{name}: solve traces abstractly and runs", "unit": rec.unit, "verdict": "unsat", "nontrivial": True, "distinct": True, "claim": f"jax.make_jaxpr(solve) with {len(jaxpr.jaxpr.eqns)} equations"})
    except Exception as e:  # noqa: BLE001
        rec.violation("solve", {"what": "accepted specification cannot be solved (internal error)", "observed": f"{type(e).__name__}: {str(e)[:300]}", "expected": "value arrays", "inputs": {}}, key=key)
        return {"bounds": {"shape": name}}
    # (b) simulate: symbolically on all paths, else concretely
    init_c = init_b(n)

    def conc_sim():
        return sim(conc_params(), initial_states=init_c, vf_arr_list=V)

    S = sj.Session()
    sj.TAGGING[0] = False
    sj.AMBIENT[:] = []
    try:
        p = fill(tmpl, S)
        assume = []
        if "shocks" in p:
            for nm, arr in p["shocks"].items():
                P = sj.terms(arr)
                assume += [sj.z(x) >= 0 for x in P.reshape(-1)] + [sum((sj.z(x) for x in P[i]), 0) > 0 for i in np.ndindex(*P.shape[:-1])]
        vf = [S.real(f"V{t}", tuple(np.shape(v))) for t, v in enumerate(V)]
        ini = {k: (S.real("s_" + k, (n,)) if np.asarray(v).dtype.kind == "f" else v) for k, v in init_c.items()}
        kw = {"seed": S.int("seed")} if "shocks" in p else {}
        paths = S.run_paths(lambda: sim(p, initial_states=ini, vf_arr_list=vf, **kw), base=assume, cap=64)
        rec.paths += len(paths)
        rec.primitives = S.trace.stats
        for k, (pc, df) in enumerate(paths):
            ok = len(df) == model.n_periods * n
            if ok:
                rec.obligations.append({"name": f"{name}: simulate completes on path {k}", "unit": rec.unit, "verdict": "unsat", "nontrivial": True, "distinct": True})
            else:
                rec.violation(f"simulate path {k}", {"what": "simulation frame has the wrong number of rows", "observed": len(df), "expected": model.n_periods * n, "inputs": {}}, key=key)
        mode = "symbolic, all paths"
    except Exception as e:  # noqa: BLE001
        try:
            df = conc_sim()
            if isinstance(e, (sj.Unsupported, sj.PathCapExceeded)):
                rec.obligations.append({"name": f"{name}: simulate runs concretely (symbolic engine: {str(e)[:80]})", "unit": rec.unit, "verdict": "const"})
                mode = "concrete only"
            else:
                from ..harness import HarnessError

                raise HarnessError(f"{name}: symbolic simulate raised {type(e).__name__}: {e} but the concrete run did not") from e
        except Exception as e2:  # noqa: BLE001
            from ..harness import HarnessError

            if isinstance(e2, HarnessError):
                raise
            rec.violation("simulate", {"what": "accepted specification cannot be simulated (internal error)", "observed": f"{type(e2).__name__}: {str(e2)[:300]}", "expected": "a frame", "inputs": {}}, key=key)
            return {"bounds": {"shape": name}}
    return {"bounds": {"shape": name, "simulate": mode}}
