"""exp/log as uninterpreted functions + instantiated true axioms; Ackermannisation.

Adding true facts about the real exp/log keeps `unsat` sound for the real functions; a `sat`
answer may be spurious (the UF is weaker than the real function) and is therefore always
replayed against the real code before it is reported.
"""
from __future__ import annotations

import itertools

import z3

from .. import symjax as sj


def collect_apps(terms, names=("exp", "log")):
    apps = {n: {} for n in names}
    seen = set()
    stack = [t for t in terms if isinstance(t, z3.ExprRef)]
    while stack:
        e = stack.pop()
        i = e.get_id()
        if i in seen:
            continue
        seen.add(i)
        if z3.is_app(e):
            nm = e.decl().name()
            if nm in apps and e.num_args() == 1:
                apps[nm][i] = e
            stack.extend(e.children())
    return {n: list(d.values()) for n, d in apps.items()}


def explog_axioms(terms, start=None, stop=None, products=False, rounds=1):
    """instantiate axioms on the exp/log applications occurring in `terms`"""
    EXP, LOG = sj.UF["exp"], sj.UF["log"]
    apps = collect_apps(terms)
    exps, logs = list(apps["exp"]), list(apps["log"])
    ax = []
    # inverse relations create new applications; close once
    for _ in range(rounds):
        new_logs = [LOG(e) for e in exps]
        new_exps = [EXP(l) for l in logs]
        for e, l in zip(exps, new_logs):
            ax.append(l == e.arg(0))  # log(exp x) = x
        for l, e in zip(logs, new_exps):
            ax.append(z3.Implies(l.arg(0) > 0, e == l.arg(0)))  # exp(log a) = a for a > 0
        exps = _uniq(exps + new_exps)
        logs = _uniq(logs + new_logs)
    for e in exps:
        ax.append(e > 0)
        ax.append((e.arg(0) < 0) == (e < 1))
        ax.append((e.arg(0) == 0) == (e == 1))
        ax.append(e >= 1 + e.arg(0))  # tangent at 0
    for l in logs:
        a = l.arg(0)
        ax.append(z3.Implies(a > 0, (a < 1) == (l < 0)))
        ax.append(z3.Implies(a > 0, (a == 1) == (l == 0)))
        ax.append(z3.Implies(a > 0, l <= a - 1))
    for e1, e2 in itertools.combinations(exps, 2):
        ax.append((e1.arg(0) < e2.arg(0)) == (e1 < e2))
        ax.append((e1.arg(0) == e2.arg(0)) == (e1 == e2))
    for l1, l2 in itertools.combinations(logs, 2):
        a1, a2 = l1.arg(0), l2.arg(0)
        ax.append(z3.Implies(z3.And(a1 > 0, a2 > 0), (a1 < a2) == (l1 < l2)))
        ax.append(z3.Implies(z3.And(a1 > 0, a2 > 0), (a1 == a2) == (l1 == l2)))
    if products:
        # exp(x) = exp(x - y) * exp(y) for all pairs (x, y) of occurring arguments
        for e1, e2 in itertools.permutations(exps, 2):
            d = EXP(e1.arg(0) - e2.arg(0))
            ax.append(e1 == d * e2)
            ax.append(d > 0)
            ax.append((e1.arg(0) < e2.arg(0)) == (d < 1))
            ax.append((e1.arg(0) == e2.arg(0)) == (d == 1))
    return ax


def _uniq(xs):
    out, seen = [], set()
    for x in xs:
        if x.get_id() not in seen:
            seen.add(x.get_id())
            out.append(x)
    return out


def ackermannize(constraints, names=("exp", "log")):
    """replace every application of the named unary UFs by a fresh real constant and add
    functional-consistency constraints; result is UF-free (pure arithmetic)."""
    cache = {}
    fresh = {}  # id of rewritten app -> (fname, new_arg, const)
    counter = [0]

    def rw(e):
        i = e.get_id()
        if i in cache:
            return cache[i]
        if not z3.is_app(e) or e.num_args() == 0:
            cache[i] = e
            return e
        ch = [rw(c) for c in e.children()]
        nm = e.decl().name()
        if nm in names and len(ch) == 1 and e.decl().kind() == z3.Z3_OP_UNINTERPRETED:
            key = (nm, ch[0].get_id())
            if key not in fresh:
                counter[0] += 1
                fresh[key] = (nm, ch[0], z3.Real(f"{nm}!{counter[0]}"))
            r = fresh[key][2]
        else:
            r = e.decl()(*ch)
        cache[i] = r
        return r

    out = [rw(c) if isinstance(c, z3.ExprRef) else c for c in constraints]
    items = list(fresh.values())
    cong = []
    for (n1, a1, c1), (n2, a2, c2) in itertools.combinations(items, 2):
        if n1 == n2:
            cong.append(z3.Implies(a1 == a2, c1 == c2))
    return out, cong
