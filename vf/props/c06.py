"""C06 - solve and simulate agree with each other."""
from __future__ import annotations

import itertools
from fractions import Fraction

import numpy as np
import z3

from .. import symjax as sj
from ..harness import Conc, close
from ..refsem import Ref
from ..templates import build
from .c02 import row_env
from .pipeline import confirm_crash, default_values, frame_terms, get_function, is_tagged, replace_topdown

META = {
    "explanation": "Symbolic runs of the real functions with the same symbolic params: V = solve(params); frame A = simulate(params, "
    "vf_arr_list=V); frame B = solve_and_simulate(params) (all paths of the data-dependent filtering). (i) for every pair of "
    "compatible paths the two frames are equal cell by cell; (ii) for every path, period, agent and grid node g of the period's "
    "state space: if the agent's state equals g then the simulated value equals V[t][index of g in the documented layout] - "
    "decided by substituting g for the agent's state terms (continuous state = node, discrete state = label) and comparing the "
    "two terms, with the entries of V[t+1] replaced by the same fresh constants on both sides (they are syntactically unique "
    "tagged terms); fully discrete models are covered in every period.",
    "bounds": "templates TA, TB, TC, TD, TH (fully discrete), TM, TJ, TF (period-dependent filter, 3 periods) with 1-2 agents and T = 2 (thorough 3)",
    "outside": "off-grid states (the property is about on-grid states); more agents/periods",
    "assumptions": ["as C01/C02"],
    "stubs": [],
}

QUICK = [(("TA", dict(T=2)), 2), (("TB", dict(T=2)), 2), (("TC", dict(T=2, nw=3, nc=2)), 2), (("TD", dict(T=2, nw=3)), 1), (("TH", dict(T=3)), 3), (("TM", dict(T=2)), 1), (("TJ", dict(T=2)), 2), (("TF", dict(T=3)), 2), (("TP", dict(T=3)), 2)]
THOROUGH = QUICK + [(("TC", dict(T=3, nw=3, nc=2)), 2), (("TN", dict(T=2)), 2), (("TA", dict(T=3)), 2), (("TG", dict(T=2)), 1), (("TQ", dict(T=2)), 2)]


def units(tier):
    from .c01 import spec_name

    out = []
    for s, n in QUICK if tier == "quick" else THOROUGH:
        # the 36-choice template: on-grid agreement in later periods only in the thorough tier (each
        # of those queries carries the whole period-0 decision in its path condition: 100-200 s each)
        later = not (tier == "quick" and s[0] == "TD")
        out.append((f"agree:{spec_name(s)}|agents={n}", "u_agree", {"spec": s, "n": n, "later_periods": later}))
    return out


def u_agree(rec, spec, n, later_periods=True):
    tm = build(tuple(spec))
    S = sj.Session()
    sj.SIDE.clear()
    sj.TAGGING[0] = True
    params = tm.params(S)
    assume = tm.assume(S.symbols)
    sj.AMBIENT[:] = list(assume)
    ref = Ref(tm.model, params, S, ambient=assume)
    T = tm.model.n_periods
    init = tm.init(S, n)
    rec.symbols = S.symbols
    solve, _ = get_function(tm.model, "solve", True)
    sim, _ = get_function(tm.model, "simulate", True)
    sas, _ = get_function(tm.model, "solve_and_simulate", True)

    def conc_all(vals, init_override=None):
        C = Conc(vals)
        p = tm.params(C)
        ini = tm.init(C, n) if init_override is None else init_override
        V = solve(p)
        a = sim(p, initial_states=ini, vf_arr_list=V)
        b = sas(p, initial_states=ini)
        return [np.asarray(v) for v in V], a, b

    try:
        V = S.run(solve, params)
        Vt = [sj.terms(v) for v in V]
        sj.TAGGING[0] = False  # only the entries of V are tagged (needed for part (ii))
        pathsA = S.run_paths(lambda: sim(params, initial_states=init, vf_arr_list=V), base=assume, cap=64)
        pathsB = S.run_paths(lambda: sas(params, initial_states=init), base=assume, cap=64)
    except Exception as e:  # noqa: BLE001
        confirm_crash(rec, "solve/simulate run", e, lambda: conc_all(default_values(tm)), key=f"{rec.unit}/raises")
        return {}
    rec.paths += len(pathsA) + len(pathsB)
    rec.primitives = S.trace.stats

    def frames_replay(vals):
        vals = {k: v for k, v in vals.items() if k in S.symbols}
        _, a, b = conc_all(vals)
        if list(a.columns) != list(b.columns) or len(a) != len(b):
            return {"what": "solve_and_simulate frame has another shape than simulate(solve())", "observed": [list(b.columns), len(b)], "expected": [list(a.columns), len(a)]}
        for c in a.columns:
            for r in range(len(a)):
                if not close(float(a[c].iloc[r]), float(b[c].iloc[r])):
                    return {"what": "solve_and_simulate differs from simulate(vf_arr_list=solve(params))", "column": c, "row": r, "observed": float(b[c].iloc[r]), "expected": float(a[c].iloc[r])}
        return None

    # (i) the two frames
    colsA = [(pc, frame_terms(df)[0]) for pc, df in pathsA]
    n_pairs = 0
    for pca, ca in colsA:
        for pcb, dfb in pathsB:
            cb, _ = frame_terms(dfb)
            joint = assume + list(pca) + list(pcb)
            if (pca or pcb) and rec._check(joint, 20000)[0] == "unsat":
                continue
            n_pairs += 1
            rec.prove(f"same columns[{n_pairs}]", list(ca) == list(cb) and all(len(ca[c]) == len(cb[c]) for c in ca), joint, replay=frames_replay)
            for c in ca:
                if c not in cb:
                    continue
                for r, (x, y) in enumerate(zip(ca[c], cb[c])):
                    rec.prove(f"frames-equal[{c}][pair{n_pairs},row={r}]", sj.x_eq(x, y), joint, replay=frames_replay)

    # (ii) on-grid states: simulated value == solved value
    def grid_replay(vals):
        """concrete: start all agents on grid nodes (every node of the continuous grids in turn)"""
        import jax.numpy as jnp

        vals = {k: v for k, v in vals.items() if k in S.symbols}
        C = Conc(vals)
        base = tm.init(C, n)
        cont = [s for s in ref.states if ref.is_cont[s]]
        for nodes in itertools.product(*[ref.grid[s] for s in cont]):
            ini = dict(base)
            for s, g in zip(cont, nodes):
                ini[s] = jnp.full((n,), float(g))
            Vc, a, _ = conc_all(vals, ini)
            for t in range(T):
                shape, index = ref.layout(t)
                for i in range(n):
                    r = t * n + i
                    byname = {}
                    ok = True
                    for s in ref.states:
                        x = float(a[s].iloc[r])
                        cand = [k for k, g in enumerate(ref.grid[s]) if abs(float(g) - x) <= 1e-12]
                        if not cand:
                            ok = False
                            break
                        byname[s] = cand[0]
                    if not ok:
                        continue
                    idx = index(byname)
                    if idx is None:
                        continue
                    if not close(float(a["value"].iloc[r]), float(Vc[t][idx])):
                        return {"what": f"on-grid agent: simulated value differs from the solved value array in period {t}", "observed": float(a["value"].iloc[r]), "expected": float(Vc[t][idx]), "state": {s: float(a[s].iloc[r]) for s in ref.states}}
        return None

    seen = set()
    for pi, (pc, ca) in enumerate(colsA):
        for t in range(T if later_periods else 1):
            shape, index = ref.layout(t)
            if tuple(Vt[t].shape) != shape:
                rec.prove(f"shape[{t}]", False, assume, replay=grid_replay)
                continue
            vmap = {}
            if t < T - 1:
                for k, e in enumerate(Vt[t + 1].reshape(-1)):
                    e = sj.force(e)
                    if is_tagged(e):
                        vmap[e.get_id()] = (e, z3.Real(f"W{t+1}_{k}"))
            pc_t = pc.upto(t)
            for i in range(n):
                row = t * n + i
                st, _ch = row_env(ref, ca, row)
                value = ca["value"][row]
                for sidx, byname in ref.states_in_space(t):
                    smap = {}
                    antecedent = []
                    consistent = True
                    for s in ref.states:
                        e = sj._py(sj.force(st[s]))
                        g = ref.grid[s][byname[s]]
                        if not sj.is_sym(e):
                            if e != g:
                                consistent = False
                                break
                        else:
                            ez = sj.z(e)
                            gz = sj.zr(g) if ref.is_cont[s] else sj.z(int(g))
                            smap[ez.get_id()] = (ez, gz)
                            antecedent.append((sj.zr(ez) if ref.is_cont[s] else ez) == gz)
                    if not consistent:
                        continue
                    allmap = {**vmap, **smap}
                    target = Vt[t][index(byname)]
                    if isinstance(sj.force(target), z3.ExprRef) and is_tagged(sj.force(target)):
                        target = sj.force(target).arg(1)  # the entry itself (outer tag removed)
                    lhs = replace_topdown(value, allmap)
                    rhs = replace_topdown(target, vmap)
                    # antecedent "the agent's state equals g" (stated on the original terms, next to the
                    # path condition) + the same substitution inside the compared terms
                    pre = [replace_topdown(c, vmap) for c in assume + pc_t + antecedent]
                    claim = sj.x_eq(lhs, rhs)
                    key = (t, i, claim.sexpr() if isinstance(claim, z3.ExprRef) else str(claim))
                    if key in seen:
                        continue
                    seen.add(key)
                    # the substituted path condition may be unsatisfiable (this path is not taken from g)
                    if (pc_t or t > 0) and rec._check(pre, 20000)[0] == "unsat":
                        continue
                    rec.prove(f"on-grid[path{pi},t={t},agent={i},state={sidx}]", claim, pre, replay=grid_replay, try_first=[replace_topdown(c, vmap) for c in assume])
    return {"bounds": {"template": tm.name, "agents": n, "T": T, "paths": [len(pathsA), len(pathsB)]}, "symbols": len(S.symbols)}
