"""C11 - the solution obeys the algebraic laws of finite-horizon dynamic programming."""
from __future__ import annotations

import inspect

from types import SimpleNamespace

import numpy as np
import z3

from .. import symjax as sj
from ..harness import Conc, close
from ..refsem import Ref, masked_max
from ..templates import Tmpl, build, dg, lin
from .pipeline import composed_fallback, is_tagged, confirm_crash, default_values, get_function, prove_side_conditions, replace_topdown

META = {
    "explanation": "Algebraic oracles: pairs of symbolic runs of the real solve function are compared with each other. (i) utility "
    "replaced by a*utility+b with symbolic a>0, b, beta: V'_t == a*V_t + b*sum_{k<=T-1-t} beta^k (proved by induction over periods "
    "with an arbitrary next-period array); (ii) beta = 0: V_t equals the one-period maximum of period-t utility over the feasible "
    "choices; (iii) templates without period dependence: the values k periods before the end coincide for horizons T in {1,2,3}; "
    "(iv) a stochastic state whose transition rows are one-hot rows selected by *symbolic* integers D[...] gives the same values as "
    "the model with the deterministic transition next = D[...].",
    "bounds": "templates TA, TB, TC, TD, TG, TH, TM, TE with grids of 2-5 points, horizons 1-3 (thorough 4); degenerate transition "
    "arrays for 1 stochastic state with 2 labels depending on (state, choice, period), alone, next to a continuous state, and next to a second genuinely stochastic state (declared in alphabetical and in non-alphabetical order)",
    "outside": "'models far larger than a reference implementation can enumerate' - sizes are bounded as everywhere; a <= 0",
    "assumptions": ["a > 0", "every state has a feasible choice (finite values)", "D entries are valid labels"],
    "stubs": [],
}

AFFINE = [("TA", dict(T=3)), ("TB", dict(T=2)), ("TC", dict(T=2, nw=3, nc=2)), ("TG", dict(T=2)), ("TH", dict(T=3)), ("TM", dict(T=2)), ("TE", dict(T=2))]
# TD (36 choice combinations per state): z3 does not finish with a symbolic scale a within the time
# limit (DESIGN 5.3(d)); a is fixed to 2 and to 1/2 there, b and beta stay symbolic
AFFINE_FIXED_A = [(("TD", dict(T=2, nw=3)), "2"), (("TD", dict(T=2, nw=3)), "1/2")]
BETA0 = [("TA", dict(T=3, beta_sym=False)), ("TB", dict(T=2)), ("TC", dict(T=3, nw=3, nc=2)), ("TF", dict(T=3)), ("TE", dict(T=2)), ("TH", dict(T=3))]
AFFINE_THOROUGH = [("TA", dict(T=4)), ("TA", dict(T=6)), ("TA", dict(T=2, nw=9, nc=5)), ("TB", dict(T=4)), ("TC", dict(T=3, nw=5, nc=3)), ("TG", dict(T=3)), ("TH", dict(T=5)), ("TM", dict(T=3)), ("TE", dict(T=3)), ("TK", dict(T=2)), ("TN", dict(T=2)), ("TQ", dict(T=2)), ("TP", dict(T=3))]
BETA0_THOROUGH = [("TA", dict(T=5, beta_sym=False)), ("TB", dict(T=4)), ("TC", dict(T=4, nw=5, nc=3)), ("TF", dict(T=5)), ("TE", dict(T=3)), ("TK", dict(T=3)), ("TG", dict(T=3)), ("TQ", dict(T=3)), ("TP", dict(T=3)), ("TD", dict(T=2))]
HORIZON_THOROUGH = [("TM", {}), ("TN", {}), ("TQ", {}), ("TE", dict(dep=("h", "d")))]
HORIZON = [("TA", {}), ("TB", {}), ("TC", dict(nw=3, nc=2)), ("TH", {}), ("TG", {}), ("TJ", {})]


def units(tier):
    out = [(f"affine:{s[0]}{s[1]}", "u_affine", {"spec": s}) for s in AFFINE]
    out += [(f"affine[a={a}]:{s[0]}{s[1]}", "u_affine", {"spec": s, "a_value": a}) for s, a in AFFINE_FIXED_A]
    out += [(f"beta0:{s[0]}{s[1]}", "u_beta0", {"spec": s}) for s in BETA0]
    hs = (1, 2, 3) if tier == "quick" else (1, 2, 3, 4)
    out += [(f"horizon:{s[0]}{s[1]}", "u_horizon", {"spec": s, "hs": hs}) for s in HORIZON]
    out += [("degenerate-transition[T=2]", "u_degenerate", {"T": 2})]
    out += [("degenerate-transition + second stochastic state, next_* declared in another order than the states [T=2]", "u_degenerate", {"T": 2, "second": True})]
    out += [("degenerate-transition + second stochastic state `a` declared after `h` (declaration order != alphabetical order, equal grid sizes) [T=2]", "u_degenerate", {"T": 2, "second": "a"})]
    if tier == "thorough":
        out += [("degenerate-transition[T=3]", "u_degenerate", {"T": 3})]  # T=4: z3 does not decide the period-1 cases within the limit
        out += [("degenerate-transition + second stochastic state, next_* declared in another order than the states [T=3]", "u_degenerate", {"T": 3, "second": True})]
        out += [(f"affine:{s[0]}{s[1]}", "u_affine", {"spec": s}) for s in AFFINE_THOROUGH]
        out += [(f"beta0:{s[0]}{s[1]}", "u_beta0", {"spec": s}) for s in BETA0_THOROUGH]
        out += [(f"horizon:{s[0]}{s[1]}", "u_horizon", {"spec": s, "hs": (1, 2, 3, 4, 5)}) for s in HORIZON_THOROUGH]
    return out


def affine_wrapped(tm):
    f = tm.model.functions["utility"]
    args = list(inspect.signature(f).parameters)
    src = f"def utility({', '.join(args)}, aff_a, aff_b):\n    return aff_a * __f({', '.join(f'{a}={a}' for a in args)}) + aff_b\n"
    ns = {"__f": f}
    exec(src, ns)
    funcs = dict(tm.model.functions)
    funcs["utility"] = ns["utility"]
    model = tm.model.replace(functions=funcs)

    def params(mk):
        p = tm.params(mk)
        p = dict(p)
        p["utility"] = dict(p["utility"]) | {"aff_a": mk.real("aff_a"), "aff_b": mk.real("aff_b")}
        return p

    return Tmpl(tm.name + "|a*u+b", model, params, tm.assume, tm.init)


def run_solve(rec, tm, S, label):
    params = tm.params(S)
    solve, _ = get_function(tm.model, "solve", False)

    def conc(vals):
        return [np.asarray(v) for v in solve(tm.params(Conc(vals)))]

    try:
        V = [sj.terms(v) for v in S.run(solve, params)]
    except Exception as e:  # noqa: BLE001
        confirm_crash(rec, f"solve({label}) runs", e, lambda: conc(default_values(tm)))
        return None, None, None
    prims = getattr(rec, "primitives", {})
    for k, v in S.trace.stats.items():
        prims[k] = prims.get(k, 0) + v
    rec.primitives = prims
    return V, params, conc


def u_affine(rec, spec, a_value=None):
    spec = tuple(spec)
    A = build(spec)
    B = affine_wrapped(A)
    S = sj.Session()
    sj.SIDE.clear()
    sj.TAGGING[0] = True
    S2 = sj.Session()
    pB_probe = None
    VA, pA, concA = run_solve(rec, A, S, "u")
    if VA is None:
        return {}
    VB, pB, concB = run_solve(rec, B, S2, "a*u+b")
    if VB is None:
        return {}
    symbols = {**S.symbols, **S2.symbols}
    rec.symbols = symbols
    a, b, beta = symbols["aff_a"], symbols["aff_b"], symbols["beta"]
    assume = A.assume(symbols) + [a > 0]
    if a_value is not None:
        assume.append(a == z3.RealVal(a_value))
    if "shocks" in pA:
        # the law needs proper probability rows (the constant b is averaged)
        for name, arr in pA["shocks"].items():
            P = sj.terms(arr)
            for i in np.ndindex(*P.shape[:-1]):
                assume.append(z3.Sum([sj.z(x) for x in P[i]]) == 1)
    prove_side_conditions(rec, assume)
    T = A.model.n_periods
    rec.validate("solve a*u+b", [x for v in VB for x in v.reshape(-1)], lambda vals: [float(x) for v in concB(vals) for x in v.reshape(-1)], symbols, assume, n=1)
    for t in reversed(range(T)):
        if VA[t].shape != VB[t].shape:
            rec.prove(f"shape[{t}]", False, [], replay=lambda vals: {"what": "shapes differ", "observed": list(VB[t].shape), "expected": list(VA[t].shape)})
            return {}
        geo = sum((beta**k for k in range(1, T - t)), z3.RealVal(1))  # sum_{k=0}^{T-1-t} beta^k
        ma, mb = {}, {}
        if t < T - 1:
            geo_next = sum((beta**k for k in range(1, T - t - 1)), z3.RealVal(1))
            for k, idx in enumerate(np.ndindex(*VA[t + 1].shape)):
                ea, eb = sj.force(VA[t + 1][idx]), sj.force(VB[t + 1][idx])
                if is_tagged(ea) and is_tagged(eb):
                    W = z3.Real(f"W{t+1}_{k}")
                    ma[ea.get_id()] = (ea, W)
                    mb[eb.get_id()] = (eb, a * W + b * geo_next)
        for idx in np.ndindex(*VA[t].shape):
            ea, eb = VA[t][idx], VB[t][idx]
            if isinstance(sj.force(ea), sj.XR) or isinstance(sj.force(eb), sj.XR):
                rec.inconclusive(f"affine[{t}]{idx}", "value may be -inf")
                continue
            ea2, eb2 = replace_topdown(ea, ma), replace_topdown(eb, mb)

            def replay(vals, t=t, idx=idx):
                vals = {k: v for k, v in vals.items() if k in symbols}
                cands = [vals]
                if rec.replay_target is None:
                    try:
                        cands += rec.pick_assignments(symbols, assume, n=3)[1:]
                    except Exception:  # noqa: BLE001
                        pass
                for v in cands:
                    if not v["aff_a"] > 0:
                        continue
                    va, vb = float(concA(v)[t][idx]), float(concB(v)[t][idx])
                    exp = float(v["aff_a"]) * va + float(v["aff_b"]) * sum(float(v["beta"]) ** k for k in range(T - t))
                    if not close(vb, exp):
                        return {"what": f"V'[{t}] != a*V[{t}] + b*sum beta^k", "observed": vb, "expected": exp, "inputs": v}
                return None

            full = (lambda ea=ea, eb=eb, geo=geo: sj.zr(eb) == a * sj.zr(ea) + b * geo) if ma else None
            rec.prove(f"affine[{t}]{list(idx)}", sj.zr(eb2) == a * sj.zr(ea2) + b * geo, assume, replay=composed_fallback(rec, SimpleNamespace(symbols=symbols), assume, full, replay))
    return {"bounds": {"template": A.name}, "symbols": len(symbols)}


def u_beta0(rec, spec):
    spec = tuple(spec)
    A = build(spec)
    S = sj.Session()
    sj.SIDE.clear()
    params = A.params(S)
    params["beta"] = 0.0
    solve, _ = get_function(A.model, "solve", False)

    def conc(vals):
        p = A.params(Conc(vals))
        p["beta"] = 0.0
        return [np.asarray(v) for v in solve(p)]

    try:
        V = [sj.terms(v) for v in S.run(solve, params)]
    except Exception as e:  # noqa: BLE001
        confirm_crash(rec, "solve(beta=0) runs", e, lambda: conc(default_values(A)))
        return {}
    rec.primitives = S.trace.stats
    rec.symbols = S.symbols
    assume = A.assume(S.symbols)
    prove_side_conditions(rec, assume)
    ref = Ref(A.model, params, S, ambient=assume)
    T = A.model.n_periods
    rec.validate("solve beta=0", [x for v in V for x in v.reshape(-1)], lambda vals: [float(x) for v in conc(vals) for x in v.reshape(-1)], S.symbols, assume, n=1)
    for t in range(T):
        shape, index = ref.layout(t)
        if tuple(V[t].shape) != shape:
            rec.prove(f"shape[{t}]", False, [], replay=lambda vals: {"what": "shape differs from layout", "observed": list(V[t].shape), "expected": list(shape)})
            return {}
        for sidx, byname in ref.states_in_space(t):
            senv = {s: ref.grid[s][i] for s, i in byname.items()}
            one = masked_max([(f, q) for (_, _, f, q) in ref.choice_candidates(senv, t, None)])  # period-t utility only
            idx = index(byname)

            def replay(vals, t=t, idx=idx, one=one):
                o = float(conc(vals)[t][idx])
                e = sj.evaluate(one, {S.symbols[k]: v for k, v in vals.items() if k in S.symbols})
                if close(o, e):
                    return None
                return {"what": f"with beta=0, V[{t}] is not the one-period maximum of period-{t} utility", "observed": o, "expected": e}

            rec.prove(f"beta0[{t}]{list(idx)}", sj.x_eq(V[t][idx], one), assume, replay=replay)
    return {"bounds": {"template": A.name}, "symbols": len(S.symbols)}


def u_horizon(rec, spec, hs):
    name, kw = spec
    runs = {}
    symbols = {}
    for T in hs:
        tm = build((name, dict(kw, T=T)))
        S = sj.Session()
        sj.SIDE.clear()
        V, p, conc = run_solve(rec, tm, S, f"T={T}")
        if V is None:
            return {}
        runs[T] = (V, conc, tm)
        symbols.update(S.symbols)
    rec.symbols = symbols
    assume = runs[hs[0]][2].assume(symbols)
    n = 0
    for T in hs:
        for T2 in hs:
            if T2 <= T:
                continue
            for k in range(T):  # k periods before the end
                ea, eb = runs[T][0][T - 1 - k], runs[T2][0][T2 - 1 - k]
                if ea.shape != eb.shape:
                    rec.prove(f"shape[T={T},T'={T2},k={k}]", False, [], replay=lambda vals: {"what": "shapes differ across horizons", "observed": list(eb.shape), "expected": list(ea.shape)})
                    continue
                for idx in np.ndindex(*ea.shape):

                    def replay(vals, T=T, T2=T2, k=k, idx=idx):
                        a = float(runs[T][1](vals)[T - 1 - k][idx])
                        b = float(runs[T2][1](vals)[T2 - 1 - k][idx])
                        if close(a, b):
                            return None
                        return {"what": f"values {k} periods before the end differ between horizons {T} and {T2}", "observed": b, "expected": a}

                    rec.prove(f"horizon[T={T},T'={T2},k={k}]{list(idx)}", sj.x_eq(ea[idx], eb[idx]), assume, replay=replay)
                    n += 1
    return {"bounds": {"template": name, "horizons": list(hs), "entries": n}}


# ----------------------------------------------------------------------------------
def _sto_det_models(T, second=False):
    import jax.numpy as jnp
    import lcm
    from lcm import Model

    if second:
        # a second, genuinely stochastic state (named `second`: "j", or "a" so that the declaration order
        # h, a is NOT the alphabetical order); the functions dict lists next_<second> BEFORE next_h while
        # the states dict lists h before it
        jn = second if isinstance(second, str) else "j"
        ns = {"lcm": lcm}
        exec(
            f"def utility2(h, {jn}, d, U):\n    return U[h, {jn}, d]\n"
            f"@lcm.mark.stochastic\ndef next_h_sto2(h, d, _period):\n    pass\n"
            f"def next_h_det2(h, d, _period, D):\n    return D[h, d, _period]\n"
            f"@lcm.mark.stochastic\ndef next_j({jn}):\n    pass\n",
            ns,
        )
        utility2, next_h_sto2, next_h_det2, next_j = ns["utility2"], ns["next_h_sto2"], ns["next_h_det2"], ns["next_j"]
        st2 = {"h": dg(2), jn: dg(2)}
        ch2 = dict(d=dg(2))
        sto = Model(n_periods=T, functions={"utility": utility2, f"next_{jn}": next_j, "next_h": next_h_sto2}, choices=ch2, states=st2)
        det = Model(n_periods=T, functions={"utility": utility2, f"next_{jn}": next_j, "next_h": next_h_det2}, choices=ch2, states=st2)
        return sto, det

    def utility(h, d, w, U, tw):
        return U[h, d] + tw * w

    @lcm.mark.stochastic
    def next_h_sto(h, d, _period):
        pass

    def next_h_det(h, d, _period, D):
        return D[h, d, _period]

    def next_w(w, d):
        return w * 0.5 + d * 0.5

    st = dict(h=dg(2), w=lin(0, 2, 3))
    ch = dict(d=dg(2))
    sto = Model(n_periods=T, functions=dict(utility=utility, next_h=next_h_sto, next_w=next_w), choices=ch, states=st)
    det = Model(n_periods=T, functions=dict(utility=utility, next_h=next_h_det, next_w=next_w), choices=ch, states=st)
    return sto, det


def u_degenerate(rec, T, second=False):
    sto, det = _sto_det_models(T, second)
    jn = second if isinstance(second, str) else "j"
    nj = f"next_{jn}"
    S = sj.Session()
    sj.SIDE.clear()
    beta, tw = S.real("beta"), S.real("tw")
    U = S.real("U", (2, 2, 2) if second else (2, 2))
    PJ = S.real("PJ", (2, 2)) if second else None
    D = S.int("D", (2, 2, T))
    Dt = sj.terms(D)
    P = np.empty((2, 2, T, 2), dtype=object)
    for i in np.ndindex(2, 2, T):
        for k in range(2):
            P[i + (k,)] = z3.If(Dt[i] == k, z3.RealVal(1), z3.RealVal(0))
    if second:
        p_sto = {"beta": beta, "utility": {"U": U}, "next_h": {}, nj: {}, "shocks": {"h": S.lift(P), jn: PJ}}
        p_det = {"beta": beta, "utility": {"U": U}, "next_h": {"D": D}, nj: {}, "shocks": {jn: PJ}}
    else:
        p_sto = {"beta": beta, "utility": {"U": U, "tw": tw}, "next_h": {}, "next_w": {}, "shocks": {"h": S.lift(P)}}
        p_det = {"beta": beta, "utility": {"U": U, "tw": tw}, "next_h": {"D": D}, "next_w": {}}
    f_sto, _ = get_function(sto, "solve", False)
    f_det, _ = get_function(det, "solve", False)
    rec.symbols = S.symbols
    assume = [z3.And(s >= 0, s <= 1) for k, s in S.symbols.items() if k.startswith("D_")]
    sj.AMBIENT[:] = assume

    def conc(vals):
        import jax.numpy as jnp

        C = Conc(vals)
        Dc = np.asarray(C.int("D", (2, 2, T)))
        Pc = np.zeros((2, 2, T, 2))
        for i in np.ndindex(2, 2, T):
            Pc[i + (int(Dc[i]),)] = 1.0
        b, twc = C.real("beta"), C.real("tw")
        if second:
            Uc, PJc = C.real("U", (2, 2, 2)), C.real("PJ", (2, 2))
            a = f_sto({"beta": b, "utility": {"U": Uc}, "next_h": {}, nj: {}, "shocks": {"h": jnp.asarray(Pc), jn: PJc}})
            d = f_det({"beta": b, "utility": {"U": Uc}, "next_h": {"D": jnp.asarray(Dc)}, nj: {}, "shocks": {jn: PJc}})
            return [np.asarray(x) for x in a], [np.asarray(x) for x in d]
        Uc = C.real("U", (2, 2))
        a = f_sto({"beta": b, "utility": {"U": Uc, "tw": twc}, "next_h": {}, "next_w": {}, "shocks": {"h": jnp.asarray(Pc)}})
        d = f_det({"beta": b, "utility": {"U": Uc, "tw": twc}, "next_h": {"D": jnp.asarray(Dc)}, "next_w": {}})
        return [np.asarray(x) for x in a], [np.asarray(x) for x in d]

    try:
        Vs = [sj.terms(v) for v in S.run(f_sto, p_sto)]
        Vd = [sj.terms(v) for v in S.run(f_det, p_det)]
    except Exception as e:  # noqa: BLE001
        confirm_crash(rec, "solve runs", e, lambda: conc({k: 0 for k in S.symbols}))
        return {}
    rec.primitives = S.trace.stats
    prove_side_conditions(rec, assume)
    for t in reversed(range(T)):
        ma, mb = {}, {}
        if t < T - 1:
            for k, idx in enumerate(np.ndindex(*Vs[t + 1].shape)):
                ea, eb = sj.force(Vs[t + 1][idx]), sj.force(Vd[t + 1][idx])
                if is_tagged(ea) and is_tagged(eb):
                    W = z3.Real(f"W{t+1}_{k}")
                    ma[ea.get_id()] = (ea, W)
                    mb[eb.get_id()] = (eb, W)
        for idx in np.ndindex(*Vs[t].shape):

            def replay(vals, t=t, idx=idx):
                vals = {k: v for k, v in vals.items() if k in S.symbols}
                if any(not 0 <= int(v) <= 1 for k, v in vals.items() if k.startswith("D_")):
                    return None
                a, d = conc(vals)
                if close(float(a[t][idx]), float(d[t][idx])):
                    return None
                return {"what": "degenerate stochastic transition differs from the deterministic model", "observed": float(a[t][idx]), "expected": float(d[t][idx])}

            # case split over the (valid) labels selected for this state: the cases cover all D
            import itertools

            h = idx[0]
            claim = sj.x_eq(replace_topdown(Vs[t][idx], ma), replace_topdown(Vd[t][idx], mb))
            full = (lambda t=t, idx=idx: sj.x_eq(Vs[t][idx], Vd[t][idx])) if ma else None
            for combo in itertools.product(range(2), repeat=2):
                case = [S.symbols[f"D_{h}_{d}_{t}"] == v for d, v in enumerate(combo)]
                rec.prove(f"degenerate[{t}]{list(idx)}|D[{h},.,{t}]={combo}", claim, assume + case, replay=composed_fallback(rec, S, assume + case, full, replay))
    return {"bounds": {"T": T, "stochastic state labels": 2, "dependencies": "(h, d, _period)"}, "symbols": len(S.symbols)}
