"""C05 - value arrays follow the documented axis layout."""
from __future__ import annotations

import itertools

from . import c01

META = {
    "explanation": "For every declaration order of the states, choices and functions dicts of a template the real solve function is "
    "executed symbolically and compared entry by entry with the reference *through the documented layout*, which vf/refsem.py "
    "computes from the declaration order in the user's dicts only: list of n_periods arrays in chronological order; first axis = "
    "row-major enumeration (declaration order) of the filter-restricted state combinations that admit a filter-passing choice in "
    "that period, then one axis per unrestricted discrete state, then one per continuous state, each of grid length. Utilities are "
    "separating (a free table entry per discrete combination, a distinct free coefficient per continuous variable), so any "
    "transposed, reordered or mis-ranked axis makes an obligation satisfiable.",
    "bounds": "templates TB, TC, TD, TE, TG, TK (two stochastic states), TJ (a restricted state without any passing choice), TM (restricted + unrestricted discrete + "
    "continuous state), TN (two restricted states with an excluded combination, two unrestricted discrete states of different "
    "size), TF (period-dependent filter: the first axis changes with the period); quick: 6 declaration orders per template, "
    "thorough: all orders of states and choices x 3 function orders; T=2 (TF: 3)",
    "outside": "model structures outside the template family; more than 4 states",
    "assumptions": ["as C01"],
    "stubs": [],
}

BASES = [
    ("TB", dict(T=2)),
    ("TC", dict(T=2, nw=3, nc=2)),
    ("TD", dict(T=2, nw=3)),
    ("TE", dict(T=2)),
    ("TG", dict(T=2)),
    ("TJ", dict(T=2)),
    ("TM", dict(T=2)),
    ("TN", dict(T=2)),
    ("TF", dict(T=3)),
    ("TP", dict(T=2)),  # first axis differs between periods
    ("TK", dict(T=2)),  # two stochastic states: order of the next_* functions vs order of the states
]


def orders(spec, tier):
    from ..templates import build

    tm = build(spec)
    ns, nc, nf = len(tm.model.states), len(tm.model.choices), len(tm.model.functions)
    sp = list(itertools.permutations(range(ns)))
    cp = list(itertools.permutations(range(nc)))
    fps = [tuple(range(nf)), tuple(reversed(range(nf))), tuple(range(1, nf)) + (0,)]
    allo = [(s, c, f) for s in sp for c in cp for f in fps]
    if tier == "thorough":
        return allo
    # quick: identity, full reversal, and a few mixed ones (deterministic selection)
    pick = [allo[0], (sp[-1], cp[-1], fps[1])]
    step = max(1, len(allo) // 4)
    for k in range(1, len(allo), step):
        if allo[k] not in pick:
            pick.append(allo[k])
    return pick[:6]


def units(tier):
    out = []
    for spec in BASES:
        for so, co, fo in orders(spec, tier):
            full = (spec[0], spec[1], so, co, fo)
            out.append((f"layout:{c01.spec_name(spec)}|states={so}|choices={co}|functions={fo}", "u_layout", {"spec": full}))
    return out


def u_layout(rec, spec):
    return c01.u_solve(rec, tuple(spec), jit_too=False)
