"""C13 - the simulation result is a complete, correctly indexed panel."""
from __future__ import annotations

import itertools

import numpy as np
import z3

from .. import symjax as sj
from ..harness import close
from .c02 import row_env, setup
from .pipeline import conc_simulate, confirm_crash, default_values, frame_terms, get_function, sym_simulate

META = {
    "explanation": "The simulate function is executed symbolically (symbolic params, value arrays and continuous initial states; all "
    "paths of the data-dependent filtering) for 1-3 agents, 1-3 periods and every subset of up to 3 additional targets. Decided per "
    "path: exactly n_periods*n_agents rows; MultiIndex (period, initial_state_id) in period-major order; the column set is value + "
    "choices + states + _period + targets; _period == t in row (t,i); the period-0 state cells of row (0,i) are the supplied "
    "initial state i; every additional target cell (auxiliary function, utility, constraint, deterministic transition) equals "
    "the user's function evaluated on that row's state, choice and period cells and the params (solver query per cell).",
    "bounds": "templates TA (auxiliary function with parameter, constraint with parameter), TC (filter), TB, TH, TL (colliding parameter "
    "names), TF (period-dependent functions); agents 1-3, periods 1-3 (quick: a selection), target subsets up to size 3",
    "outside": "more than 3 agents / periods; stochastic transition functions as targets (not deterministic)",
    "assumptions": ["as C02"],
    "stubs": [],
}

TARGETS = {
    "TA": ["inc", "utility", "c_constraint", "next_w"],
    "TC": ["utility", "c_constraint", "next_lag", "next_w"],
    "TB": ["utility", "next_h", "next_w"],
    "TH": ["utility", "next_s"],
    "TL": ["inc", "utility", "c_constraint", "next_w"],
    "TF": ["utility", "next_s", "next_w"],
}


def units(tier):
    out = []
    combos = []
    for name, tg in TARGETS.items():
        subsets = [list(c) for k in range(0, 4) for c in itertools.combinations(tg, k)]
        if tier == "quick":
            subsets = [[], tg[:3], tg[-2:], [tg[0]]]
        for sub in subsets:
            combos.append((name, sub))
    k = 0
    for name, sub in combos:
        shapes = [(1, 1), (2, 2), (3, 2), (1, 3), (2, 3), (3, 1)] if tier == "thorough" else [[(2, 2)], [(1, 1)], [(3, 1)], [(1, 3)]][k % 4]
        k += 1
        for T, n in shapes:
            if name == "TF" and T < 2:
                T = 2
            kw = dict(T=T)
            if name == "TC":
                kw.update(nw=3, nc=2)
            out.append((f"panel:{name}[T={T},agents={n},targets={'+'.join(sub) or 'none'}]", "u_panel", {"spec": (name, kw), "n": n, "targets": sub}))
    # continuous initial states supplied as an integer array (dtype handling when the panel is assembled)
    out.append(("panel:TA[T=3,agents=2,int_init,targets=inc+utility+next_w]", "u_panel", {"spec": ("TA", dict(T=3, int_init=True)), "n": 2, "targets": ["inc", "utility", "next_w"]}))
    # a target that is not elementwise on arrays (jnp.sum(jnp.array([w, inc]))): must be evaluated per row
    out.append(("panel:TA[T=2,agents=3,vec_aux,targets=coh+inc]", "u_panel", {"spec": ("TA", dict(T=2, vec_aux=True)), "n": 3, "targets": ["coh", "inc"]}))
    return out


def u_panel(rec, spec, n, targets):
    tm, S, params, ref, vf, init, assume, T = setup(rec, spec, n)
    tg = list(targets) if targets else None
    holder = {}

    def conc_run(vals):
        return conc_simulate(tm, holder["sim"], vals, ref, n, additional_targets=tg)

    try:
        paths, sim = sym_simulate(rec, tm, S, params, vf, init, base=assume, additional_targets=tg)
        holder["sim"] = sim
    except Exception as e:  # noqa: BLE001
        holder["sim"] = get_function(tm.model, "simulate", True)[0]
        dv = default_values(tm)
        confirm_crash(rec, "simulate runs", e, lambda: conc_run(dv), key=f"{rec.unit}/simulate raises")
        return {}
    init_t = {k: [sj.force(x) for x in sj.terms(v).reshape(-1)] for k, v in init.items()}
    expected_cols = ["value", *ref.choices, *ref.states, "_period", *(tg or [])]
    for pi, (pc, df) in enumerate(paths):
        pre = assume + list(pc)

        def struct_replay(vals, what="panel structure"):
            dfc = conc_run({k: v for k, v in vals.items() if k in S.symbols})
            ok = len(dfc) == T * n and list(dfc.index.names) == ["period", "initial_state_id"] and list(dfc.index) == [(t, i) for t in range(T) for i in range(n)]
            ok = ok and set(dfc.columns) == set(expected_cols) and all(int(dfc["_period"].iloc[t * n + i]) == t for t in range(T) for i in range(n))
            if ok:
                return None
            return {"what": "simulation frame is not the documented panel", "observed": {"rows": len(dfc), "index": [list(map(int, x)) for x in dfc.index][:12], "columns": list(dfc.columns)}, "expected": {"rows": T * n, "columns": expected_cols}}

        rec.prove(f"rows[path{pi}]", len(df) == T * n, pre, replay=struct_replay)
        rec.prove(f"index names[path{pi}]", list(df.index.names) == ["period", "initial_state_id"], pre, replay=struct_replay)
        rec.prove(f"index period-major[path{pi}]", [tuple(map(int, x)) for x in df.index] == [(t, i) for t in range(T) for i in range(n)], pre, replay=struct_replay)
        rec.prove(f"columns[path{pi}]", set(df.columns) == set(expected_cols) and len(df.columns) == len(expected_cols), pre, replay=struct_replay)
        if len(df) != T * n or set(df.columns) != set(expected_cols):
            continue
        cols, _ = frame_terms(df)
        for t in range(T):
            for i in range(n):
                row = t * n + i
                rec.prove(f"_period[path{pi},{t},{i}]", sj._cmp("eq", cols["_period"][row], t), pre, replay=struct_replay)
                if t == 0:
                    for s in ref.states:

                        def rp0(vals, s=s, i=i):
                            dfc = conc_run({k: v for k, v in vals.items() if k in S.symbols})
                            from ..harness import Conc

                            exp = float(np.asarray(tm.init(Conc(vals), n)[s])[i])
                            o = float(dfc[s].iloc[i])
                            return None if close(o, exp) else {"what": f"period-0 state {s} of agent {i} is not the supplied initial state", "observed": o, "expected": exp}

                        rec.prove(f"initial[{s}][path{pi},{i}]", sj._cmp("eq", cols[s][row], init_t[s][i]), pre, replay=rp0)
                st, ch = row_env(ref, cols, row)
                env = {**st, **ch}
                for g in tg or []:
                    exp = ref.eval(g, env, t)

                    def rpt(vals, g=g, t=t, i=i):
                        vals = {k: v for k, v in vals.items() if k in S.symbols}
                        dfc = conc_run(vals)
                        r = t * n + i
                        from fractions import Fraction

                        envc = {}
                        for v in ref.states + ref.choices:
                            x = dfc[v].iloc[r]
                            envc[v] = Fraction(float(x)) if ref.is_cont[v] else int(x)
                        e = sj.evaluate(ref.eval(g, envc, t), {S.symbols[k]: v for k, v in vals.items()})
                        o = dfc[g].iloc[r]
                        if close(o, e):
                            return None
                        return {"what": f"target column {g} differs from the model function at row ({t},{i})", "observed": float(o), "expected": float(e) if not isinstance(e, bool) else e}

                    rec.prove(f"target[{g}][path{pi},{t},{i}]", sj._cmp("eq", cols[g][row], exp), pre, replay=rpt)
    return {"bounds": {"template": tm.name, "agents": n, "T": T, "targets": tg or [], "paths": len(paths)}, "symbols": len(S.symbols)}
