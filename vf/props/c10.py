"""C10 - equivalent model specifications yield equal solutions."""
from __future__ import annotations

import numpy as np
import z3

from .. import symjax as sj
from ..harness import Conc, close
from ..refsem import Ref
from ..templates import build, permuted, renamed, with_functions
from .pipeline import composed_fallback, is_tagged, abstraction_maps, confirm_crash, default_values, get_function, prove_side_conditions, replace_topdown

META = {
    "explanation": "Pairs of symbolic runs of the real solve function on two write-ups of the same model, same symbolic params; for "
    "every period and every state that remains in both spaces the solver decides V_A[state] == V_B[state] (states are matched by "
    "name/value through the documented layouts of the two write-ups). Rewritings: declaration-order permutations of states, choices "
    "and functions; consistent renaming of variables and auxiliary functions (renamed signatures generated, stochastic marker "
    "kept); an added always-true constraint (on a continuous variable, on the period) or always-true filter (on discrete "
    "variables - which turns them into filter-restricted variables and changes the layout); the same discrete restriction as a "
    "filter and as a constraint (including a state without any admissible choice: excluded from the space vs value -inf).",
    "bounds": "templates TB, TC, TD, TE, TG, TJ, TM, TN, TF, TP, TK (two stochastic states: order of next_* functions vs states), TH, TA with T=2 (TH/TA: 3); quick: 2 permutations per template; thorough: 8",
    "outside": "rewritings outside the listed families; renamings that break the naming conventions",
    "assumptions": ["as C01"],
    "stubs": [],
}


def variants(tier):
    """(unit name, A builder, B builder, state-name map A->B)"""
    import jax.numpy as jnp

    out = []
    nperm = 2 if tier == "quick" else 8
    from .c05 import BASES, orders

    for spec in BASES:
        for so, co, fo in orders(spec, "thorough")[1 :: max(1, len(orders(spec, "thorough")) // nperm)][:nperm]:
            out.append((f"permute:{spec[0]}|s={so}|c={co}|f={fo}", ("perm", spec, so, co, fo)))
    ren = {
        "TC": {"lag": "zz_lagged", "w": "aa_wealth", "r": "retire", "c": "consumption"},
        "TE": {"h": "zhealth", "d": "a_dec", "w": "money"},
        "TA": {"w": "assets", "c": "spend", "inc": "aa_income"},
        "TK": {"h": "zz", "p": "aa", "d": "mm"},
        "TM": {"s": "z1", "h": "a2", "w": "m3", "d": "k4", "e": "b5"},
    }
    for name, mp in ren.items():
        out.append((f"rename:{name}", ("rename", (name, dict(T=2)), mp)))
    out.append(("true-constraint[c<=c]:TA", ("addfun", ("TA", dict(T=2)), "cc_constraint", "c")))
    out.append(("true-constraint[_period>=0]:TB", ("addfun", ("TB", dict(T=2)), "pp_constraint", "period")))
    out.append(("true-constraint[d==d]:TC", ("addfun", ("TC", dict(T=2, nw=3, nc=2)), "rr_constraint", "r")))
    out.append(("true-filter[h==h,d]:TB", ("addfun", ("TB", dict(T=2)), "hd_filter", "hd")))
    out.append(("true-filter[h, _period]:TE", ("addfun", ("TE", dict(T=2)), "hp_filter", "hp")))
    out.append(("true-filter[e==e]:TD", ("addfun", ("TD", dict(T=2, nw=3)), "ee_filter", "e")))
    out.append(("filter-vs-constraint:TC", ("f2c", ("TC", dict(T=2, nw=3, nc=2)), "abs_filter", "abs_constraint")))
    out.append(("filter-vs-constraint:TJ", ("f2c", ("TJ", dict(T=2)), "s_filter", "s_constraint")))
    out.append(("filter-vs-constraint:TM", ("f2c", ("TM", dict(T=2)), "sd_filter", "sd_constraint")))
    out.append(("filter-vs-constraint:TN", ("f2c", ("TN", dict(T=2)), "sq_filter", "sq_constraint")))
    return out


def units(tier):
    return [(n, "u_pair", {"variant": v}) for n, v in variants(tier)]


def make_pair(variant):
    import jax.numpy as jnp

    kind = variant[0]
    A = build(variant[1])
    ident = {s: s for s in A.model.states}
    if kind == "perm":
        return A, permuted(A, variant[2], variant[3], variant[4]), ident
    if kind == "rename":
        B = renamed(A, variant[2])
        return A, B, {s: variant[2].get(s, s) for s in A.model.states}
    if kind == "addfun":
        fname, which = variant[2], variant[3]
        f = {
            "c": lambda c: c <= c,
            "period": lambda _period: _period >= 0,
            "r": lambda r: r == r,
            "hd": lambda h, d: jnp.logical_and(h == h, d >= 0),
            "hp": lambda h, _period: jnp.logical_or(h >= 0, _period < 0),
            "e": lambda e: e == e,
        }[which]
        return A, with_functions(A, {fname: f}, tag="+" + fname), ident
    if kind == "f2c":
        old, new = variant[2], variant[3]
        return A, with_functions(A, {new: A.model.functions[old]}, drop=(old,), tag=f"{old}->{new}"), ident
    raise KeyError(kind)


def u_pair(rec, variant):
    variant = tuple(variant)
    A, B, smap = make_pair(variant)
    S = sj.Session()
    pA = A.params(S)
    S2 = sj.Session()
    pB = B.params(S2)  # same symbol names -> same z3 constants
    assume = A.assume(S.symbols)
    if variant[0] == "f2c":
        # a state without admissible choice has value -inf in the constraint write-up; -inf is then
        # multiplied by beta in the preceding period, which is only meaningful for beta > 0
        assume = assume + [S.symbols["beta"] > 0]
    sj.AMBIENT[:] = list(assume)
    sj.SIDE.clear()
    sj.TAGGING[0] = True
    rec.symbols = S.symbols
    solveA, _ = get_function(A.model, "solve", False)
    solveB, _ = get_function(B.model, "solve", False)

    def concA(vals):
        return [np.asarray(v) for v in solveA(A.params(Conc(vals)))]

    def concB(vals):
        return [np.asarray(v) for v in solveB(B.params(Conc(vals)))]

    try:
        VA = [sj.terms(v) for v in S.run(solveA, pA)]
    except Exception as e:  # noqa: BLE001
        confirm_crash(rec, "solve(A) runs", e, lambda: concA(default_values(A)))
        return {}
    try:
        VB = [sj.terms(v) for v in S2.run(solveB, pB)]
    except Exception as e:  # noqa: BLE001
        confirm_crash(rec, "solve(B) runs", e, lambda: concB(default_values(B)))
        return {}
    prims = dict(S.trace.stats)
    for k, v in S2.trace.stats.items():
        prims[k] = prims.get(k, 0) + v
    rec.primitives = prims
    prove_side_conditions(rec, assume)
    refA = Ref(A.model, pA, S, ambient=assume)
    refB = Ref(B.model, pB, S2, ambient=assume)
    T = A.model.n_periods
    rec.validate("solve A", [x for v in VA for x in v.reshape(-1)], lambda vals: [float(x) for v in concA(vals) for x in v.reshape(-1)], S.symbols, assume, n=1)
    rec.validate("solve B", [x for v in VB for x in v.reshape(-1)], lambda vals: [float(x) for v in concB(vals) for x in v.reshape(-1)], S.symbols, assume, n=1)
    n_cmp = 0
    prev = None
    for t in reversed(range(T)):
        shA, ixA = refA.layout(t)
        shB, ixB = refB.layout(t)
        if tuple(VA[t].shape) != shA or tuple(VB[t].shape) != shB:
            rec.prove(f"shape[t={t}]", False, [], replay=lambda vals: {"what": "array shape differs from the documented layout", "observed": [list(VA[t].shape), list(VB[t].shape)], "expected": [list(shA), list(shB)]})
            return {}
        pairs = []
        for sidx, byname in refA.states_in_space(t):
            vals_by_name = {smap[s]: byname[s] for s in byname}  # grid index per B-name (same grids)
            ib = ixB(vals_by_name)
            if ib is None:
                continue  # state not in B's space
            pairs.append((ixA(byname), ib))
        maps = None
        if prev is not None:
            ma, mb = {}, {}
            ok = True
            for k, (ia, ib) in enumerate(prev):
                ea, eb = sj.force(VA[t + 1][ia]), sj.force(VB[t + 1][ib])
                if any(isinstance(x, sj.XR) or sj.is_ninf_c(x) for x in (ea, eb)):
                    ok = False
                    break
                if is_tagged(ea) and is_tagged(eb):
                    W = z3.Real(f"W{t+1}_{k}")
                    ma[ea.get_id()] = (ea, W)
                    mb[eb.get_id()] = (eb, W)
            maps = (ma, mb) if ok and ma else None
        for ia, ib in pairs:
            ea, eb = VA[t][ia], VB[t][ib]
            if maps is not None:
                ea2, eb2 = replace_topdown(ea, maps[0]), replace_topdown(eb, maps[1])
            else:
                ea2, eb2 = ea, eb

            def replay(vals, t=t, ia=ia, ib=ib):
                vals = {k: v for k, v in vals.items() if k in S.symbols}
                cands = [vals]
                if rec.replay_target is None:
                    try:
                        cands += rec.pick_assignments(S.symbols, assume, n=3)[1:]
                    except Exception:  # noqa: BLE001
                        pass
                for v in cands:
                    a, b = float(concA(v)[t][ia]), float(concB(v)[t][ib])
                    if not close(a, b):
                        return {"what": f"equivalent specifications give different values in period {t}", "observed": b, "expected": a, "A": A.name, "B": B.name, "index_A": list(ia), "index_B": list(ib), "inputs": v}
                return None

            full = (lambda ea=ea, eb=eb: sj.x_eq(ea, eb)) if maps is not None else None
            rec.prove(f"V_A[{t}]{list(ia)}==V_B[{t}]{list(ib)}", sj.x_eq(ea2, eb2), assume, replay=composed_fallback(rec, S, assume, full, replay))
            n_cmp += 1
        prev = pairs
    return {"bounds": {"A": A.name, "B": B.name, "states_compared": n_cmp}, "symbols": len(S.symbols)}
