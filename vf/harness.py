"""Obligation recorder, solver front end, translator validation, replay plumbing.

One *unit* = one harness instantiation (template x profile x configuration) executed in its
own worker process.  A unit returns a JSON-able dict (see `Recorder.result`).
"""
from __future__ import annotations

import hashlib
import json
import math
import os
import random
import sys
import time
import traceback
from fractions import Fraction

import numpy as np
import z3

from . import symjax as sj

REPLAY_DIR = "/verif/replays"
CROSS_PER_UNIT = 2  # obligations per unit that are re-decided by cvc5


class HarnessError(Exception):
    """the machinery itself is wrong (encoding disagrees with the real code, ...)"""


def seed():
    try:
        return int(os.environ.get("VERIF_SEED", "0"))
    except ValueError:
        return 0


# ----------------------------------------------------------------------------------
# recording which lcm functions were actually entered
# ----------------------------------------------------------------------------------
class FunctionsEntered:
    def __init__(self):
        self.names = set()
        self._old = None

    def _prof(self, frame, event, arg):
        if event == "call":
            fn = frame.f_code.co_filename
            if fn.startswith("/repo/src/lcm/") and not frame.f_code.co_name.startswith("<") and frame.f_code.co_name[:1].islower() | (frame.f_code.co_name[:1] == "_"):
                self.names.add(fn[len("/repo/src/lcm/") : -3].replace("/", ".") + ":" + frame.f_code.co_name)

    def __enter__(self):
        self._old = sys.getprofile()
        sys.setprofile(self._prof)
        return self

    def __exit__(self, *a):
        sys.setprofile(self._old)


# ----------------------------------------------------------------------------------
# concrete twin of Session: same constructors, returns real jax arrays
# ----------------------------------------------------------------------------------
class Conc:
    """builds the same inputs as a Session, but concrete (floats from `values`)"""

    def __init__(self, values):
        self.values = values  # name -> python number

    def _mk(self, name, shape, dtype, default):
        import jax.numpy as jnp

        if shape == ():
            return jnp.asarray(self._get(name, default), dtype=dtype)
        arr = np.empty(shape, dtype=dtype)
        for idx in np.ndindex(*shape):
            arr[idx] = self._get(name + "_" + "_".join(map(str, idx)), default)
        return jnp.asarray(arr)

    def _get(self, name, default):
        v = self.values.get(name, default)
        if isinstance(v, Fraction):
            v = float(v)
        return v

    def real(self, name, shape=()):
        return self._mk(name, tuple(shape), np.float64, 0.0)

    def int(self, name, shape=()):
        return self._mk(name, tuple(shape), np.int64, 0)

    def bool(self, name, shape=()):
        return self._mk(name, tuple(shape), np.bool_, False)

    def lift(self, x, dtype=np.float64):
        import jax.numpy as jnp

        a = np.array(x, dtype=object)
        out = np.empty(a.shape, dtype=dtype)
        for idx in np.ndindex(*a.shape):
            v = a[idx]
            if isinstance(v, z3.ExprRef):
                v = sj.evaluate(v, {s: self.values[str(s)] for s in sj.free_consts(v).values()})
            out[idx] = float(v) if isinstance(v, Fraction) else v
        return jnp.asarray(out)

    def run(self, f, *args, **kwargs):
        return f(*args, **kwargs)


def cvc5_verdict(constraints, tlimit_ms=15000):
    """second solver: the same constraint set (tags stripped) is printed as SMT-LIB2 by z3 and decided by
    cvc5 (python wheel); returns 'unsat' / 'sat' / 'unknown' / 'error: ...'"""
    try:
        import cvc5

        s = z3.Solver()
        for c in constraints:
            if c is True:
                continue
            s.add(sj.strip_tags(c) if isinstance(c, z3.ExprRef) else z3.BoolVal(bool(c)))
        text = "(set-logic ALL)\n" + s.to_smt2()
        tm = cvc5.TermManager()
        slv = cvc5.Solver(tm)
        slv.setOption("tlimit-per", str(int(tlimit_ms)))
        parser = cvc5.InputParser(slv)
        parser.setStringInput(cvc5.InputLanguage.SMT_LIB_2_6, text, "obligation")
        sm = parser.getSymbolManager()
        res = "unknown"
        while True:
            cmd = parser.nextCommand()
            if cmd.isNull():
                break
            out = cmd.invoke(slv, sm)
            if cmd.getCommandName() == "check-sat":
                res = str(out).strip()
        return res if res in ("sat", "unsat", "unknown") else "unknown"
    except Exception as e:  # noqa: BLE001
        return f"error: {type(e).__name__}: {str(e)[:100]}"


def linear_abstraction(constraints):
    """sound weakening for `unsat`: after normalising to sums of monomials every nonlinear monomial
    (and every division by a non-constant) is replaced by a fresh real constant (the same monomial
    always by the same constant).  If the weakened constraints are unsatisfiable, so are the
    original ones; a `sat` answer of the weakened problem means nothing."""
    fresh = {}
    memo = {}

    def key_of(factors):
        return tuple(sorted(f.get_id() for f in factors))

    def is_num(e):
        return z3.is_rational_value(e) or z3.is_int_value(e) or z3.is_algebraic_value(e)

    def rw(e):
        i = e.get_id()
        if i in memo:
            return memo[i]
        if e.num_args() == 0:
            memo[i] = e
            return e
        k = e.decl().kind()
        ch = [rw(c) for c in e.children()]
        r = None
        if k == z3.Z3_OP_MUL and not z3.is_bool(e):
            nums = [c for c in ch if is_num(c)]
            rest = []
            for c in ch:
                if is_num(c):
                    continue
                if z3.is_app(c) and c.decl().kind() == z3.Z3_OP_MUL:
                    rest.extend(c.children())
                else:
                    rest.append(c)
            if len(rest) >= 2:
                kk = ("mul", key_of(rest), z3.is_int(e))
                if kk not in fresh:
                    fresh[kk] = (z3.Int if z3.is_int(e) else z3.Real)(f"mono!{len(fresh)}")
                r = fresh[kk]
                for nmb in nums:
                    r = nmb * r
        elif k == z3.Z3_OP_POWER and not is_num(ch[1]) or (k == z3.Z3_OP_POWER and not is_num(ch[0])):
            kk = ("pow", (ch[0].get_id(), ch[1].get_id()), False)
            if kk not in fresh:
                fresh[kk] = z3.Real(f"mono!{len(fresh)}")
            r = fresh[kk]
        elif k in (z3.Z3_OP_DIV, z3.Z3_OP_IDIV, z3.Z3_OP_MOD, z3.Z3_OP_REM) and not is_num(ch[1]):
            kk = ("div", (ch[0].get_id(), ch[1].get_id()), z3.is_int(e))
            if kk not in fresh:
                fresh[kk] = (z3.Int if z3.is_int(e) else z3.Real)(f"mono!{len(fresh)}")
            r = fresh[kk]
        if r is None:
            if all(a.get_id() == b.get_id() for a, b in zip(ch, e.children())):
                r = e
            else:
                r = e.decl()(*ch)
        memo[i] = r
        return r

    import sys as _s

    _s.setrecursionlimit(max(_s.getrecursionlimit(), 20000))
    out = []
    for c in constraints:
        c2 = z3.simplify(c, som=True, mul_to_power=False, sort_sums=True)
        out.append(rw(c2))
    return out


def model_assignment(mdl, symbols):
    """{name: python value} for all declared symbols under a z3 model"""
    out = {}
    for name, s in symbols.items():
        out[name] = sj.from_z3_value(mdl.eval(s, model_completion=True))
    return out


def jsonable(v):
    if isinstance(v, Fraction):
        return {"frac": [str(v.numerator), str(v.denominator)], "float": float(v)}
    if isinstance(v, (bool, int, str)) or v is None:
        return v
    if isinstance(v, float):
        if math.isinf(v) or math.isnan(v):
            return {"special": repr(v)}
        return v
    if isinstance(v, dict):
        return {str(k): jsonable(x) for k, x in v.items()}
    if isinstance(v, (list, tuple)):
        return [jsonable(x) for x in v]
    if isinstance(v, np.ndarray):
        return jsonable(v.tolist())
    if isinstance(v, (np.floating, np.integer, np.bool_)):
        return jsonable(v.item())
    return str(v)


def unjson(v):
    if isinstance(v, dict):
        if "frac" in v:
            return Fraction(int(v["frac"][0]), int(v["frac"][1]))
        if "special" in v:
            return float(v["special"])
        return {k: unjson(x) for k, x in v.items()}
    if isinstance(v, list):
        return [unjson(x) for x in v]
    return v


def close(observed, expected, rel=1e-6):
    """observed: float from the real code; expected: exact value from the reference"""
    if isinstance(expected, bool) or isinstance(observed, (bool, np.bool_)):
        return bool(observed) == bool(expected)
    o = float(observed)
    e = float(expected)
    if math.isnan(o) or math.isnan(e):
        return False
    if math.isinf(o) or math.isinf(e):
        return o == e
    return abs(o - e) <= rel * max(1.0, abs(o), abs(e))


# ----------------------------------------------------------------------------------
# the recorder
# ----------------------------------------------------------------------------------
class Recorder:
    def __init__(self, prop, unit, timeout_ms=60000):
        self.prop = prop
        self.unit = unit
        self.timeout_ms = timeout_ms
        self.obligations = []  # dicts
        self.violations = []
        self.errors = []
        self.queries = 0
        self.solver_time = 0.0
        self.twins = {}
        self.tv_points = 0
        self.tv_maxdev = 0.0
        self.paths = 0
        self.functions = set()
        self.notes = []
        self._claims = set()
        self.t0 = time.time()
        self.cross = {"checked": 0, "agree": 0, "cvc5_unknown": 0, "disagree": 0}  # "diff two solvers"
        # wall-clock budget of the unit: obligations that are reached after it are inconclusive (never a pass)
        self.deadline = time.time() + float(os.environ.get("VF_UNIT_BUDGET_S", "2400"))
        self.symbols = {}  # name -> z3 const; set by the unit (Session.symbols)
        self.replay_target = None  # (obligation name, values) when re-executing a stored replay
        self.replay_outcome = None
        self.rng = random.Random(seed() * 7919 + int(hashlib.sha1(unit.encode()).hexdigest()[:8], 16))

    # -- solver ---------------------------------------------------------------------
    def _check(self, constraints, timeout_ms=None):
        """portfolio: (1) z3's core SMT solver (fast on the bilinear beta*V terms), (2) z3's default
        strategy, (3) nlsat.  `unknown` from all three = inconclusive."""
        cons = []
        for c in constraints:
            if c is True:
                continue
            if c is False:
                return "unsat", None
            cons.append(sj.strip_tags(c))
        total = int(timeout_ms or self.timeout_ms)
        # escalating schedule: which strategy is fast depends on the query family (the core solver on
        # bilinear beta*V equalities, the default strategy on the simulation inequalities)
        mk = {
            "smt": lambda: z3.Tactic("smt").solver(),
            "default": lambda: z3.Solver(),
            "nlsat": lambda: z3.Then("simplify", "purify-arith", "qfnra-nlsat").solver(),
        }
        first = getattr(self, "_winner", "smt")
        second = "default" if first == "smt" else "smt"
        plan = [(first, min(total, 3000)), (second, min(total, 8000)), ("linabs", min(total, 30000)), (first, min(total, 20000)), (second, total), ("nlsat", total)]
        if first == "linabs":
            plan = [("linabs", min(total, 30000)), ("smt", min(total, 3000)), ("default", min(total, 8000)), ("smt", min(total, 20000)), ("default", total), ("nlsat", total)]
        plan = [(n, mk.get(n), to) for n, to in plan]
        r = "unknown"
        for name, mk, to in plan:
            if name == "linabs":
                # linear abstraction of nonlinear monomials: only `unsat` is meaningful
                try:
                    t = time.time()
                    s = z3.Solver()
                    s.set("timeout", to)
                    s.add(linear_abstraction(cons))
                    r2 = str(s.check())
                    self.queries += 1
                    self.solver_time += time.time() - t
                    self.linabs = getattr(self, "linabs", 0) + (1 if r2 == "unsat" else 0)
                    if r2 == "unsat":
                        self._winner = "linabs"
                        return "unsat", None
                except z3.Z3Exception:
                    pass
                continue
            try:
                s = mk()
                s.set("timeout", to)
                if name != "nlsat":
                    s.set("random_seed", seed() % 1000)
                s.add(cons)
                t = time.time()
                r = str(s.check())
                self.queries += 1
                self.solver_time += time.time() - t
            except z3.Z3Exception:
                r = "unknown"
            if r in ("unsat", "sat") and name != "nlsat":
                self._winner = name
            if r == "unsat":
                return r, None
            if r == "sat":
                return r, s.model()
        return r, None

    def twin(self, assume, label="assumptions"):
        """vacuity guard: the assumption set must be satisfiable"""
        if self.replay_target is not None:
            return True
        key = hashlib.sha1(("|".join(sorted(str(a.sexpr()) if isinstance(a, z3.ExprRef) else str(a) for a in assume))).encode()).hexdigest()
        if key in self.twins:
            return self.twins[key][0] == "sat"
        r, _ = self._check(list(assume))
        self.twins[key] = (r, label)
        if r == "unsat":
            self.errors.append(f"vacuous assumption set ({label}) in {self.unit}")
        return r == "sat"

    def prove(self, name, claim, assume=(), replay=None, info=None, key=None, try_first=None):
        """obligation: assume => claim.  `replay(model)` returns a dict describing the
        reproduced discrepancy against the real code, or None if it does not reproduce."""
        assume = [a for a in assume if a is not True]
        if self.replay_target is not None:
            if name == self.replay_target[0] and replay is not None:
                self.replay_outcome = replay(self.replay_target[1])
            return True
        ob = {"name": name, "unit": self.unit}
        if time.time() > self.deadline:
            ob.update({"verdict": "unknown", "reason": "unit wall-clock budget exhausted"})
            self.obligations.append(ob)
            return None
        if info:
            ob["info"] = info
        claim_t = None
        if isinstance(claim, (bool, np.bool_)):
            claim_t = False
            if claim:
                ob["verdict"] = "const"
                self.obligations.append(ob)
                return True
            r, mdl = self._check(assume)
            if r == "unsat":
                ob["verdict"] = "unsat"
                ob["nontrivial"] = True
                self.obligations.append(ob)
                return True
        else:
            self.twin(assume, label=name)
            t = time.time()
            r = None
            if try_first is not None:
                # the claim may already follow from a subset of the assumptions (cheaper query)
                r0, _m0 = self._check(list(try_first) + [z3.Not(claim)], min(self.timeout_ms, 10000))
                if r0 == "unsat":
                    r, mdl = "unsat", None
            if r is None:
                r, mdl = self._check(assume + [z3.Not(claim)])
            ob["time_s"] = round(time.time() - t, 3)
            h = hashlib.sha1(claim.sexpr().encode()).hexdigest()
            ob["nontrivial"] = True
            ob["distinct"] = h not in self._claims
            self._claims.add(h)
            if len(self.obligations) < 3:
                ob["claim"] = claim.sexpr()[:600]
                ob["free_symbols"] = sorted(sj.free_consts(claim))[:20]
        if r == "unsat":
            ob["verdict"] = "unsat"
            self.obligations.append(ob)
            # second solver on a sample of the solver-decided obligations of this unit
            if claim_t is not False and isinstance(claim, z3.ExprRef) and self.cross["checked"] < CROSS_PER_UNIT:
                self.cross["checked"] += 1
                v = cvc5_verdict(assume + [z3.Not(claim)])
                ob["cvc5"] = v
                if v == "unsat":
                    self.cross["agree"] += 1
                elif v == "sat":
                    self.cross["disagree"] += 1
                    self.errors.append(f"{self.unit}/{name}: z3 says unsat, cvc5 says sat (solver disagreement)")
                else:
                    self.cross["cvc5_unknown"] += 1
            return True
        if r == "sat":
            ob["verdict"] = "sat"
            self.obligations.append(ob)
            rep = None
            if replay is not None:
                try:
                    rep = replay(model_assignment(mdl, self.symbols))
                except sj.Unsupported as e:  # pragma: no cover
                    rep = None
                    self.errors.append(f"replay unsupported: {e}")
            if rep is None:
                self.errors.append(
                    f"{self.unit}/{name}: solver model does not reproduce against the real code "
                    f"(encoding or reference wrong) model={str(mdl)[:400]}"
                )
                ob["verdict"] = "sat-not-reproduced"
                return False
            rep = dict(rep)
            rep.update({"property": self.prop, "unit": self.unit, "obligation": name, "key": key or f"{self.unit}/{name}"})
            rep.setdefault("inputs", model_assignment(mdl, self.symbols))
            self.violations.append(rep)
            return False
        ob["verdict"] = "unknown"
        self.obligations.append(ob)
        return None

    def inconclusive(self, name, reason):
        self.obligations.append({"name": name, "unit": self.unit, "verdict": "unknown", "reason": str(reason)[:300]})

    def violation(self, name, details, key=None):
        """a violation established concretely against the real code (already a replay)"""
        if self.replay_target is not None:
            if name == self.replay_target[0]:
                self.replay_outcome = dict(details)
            return
        rep = dict(details)
        rep.update({"property": self.prop, "unit": self.unit, "obligation": name, "key": key or f"{self.unit}/{name}"})
        self.obligations.append({"name": name, "unit": self.unit, "verdict": "sat", "nontrivial": True})
        self.violations.append(rep)

    # -- translator validation --------------------------------------------------------
    def pick_assignments(self, symbols, assume, n=2):
        """assignments (name -> Fraction/int/bool) satisfying `assume`"""
        out = []
        r, mdl = self._check(list(assume))
        if r != "sat":
            raise HarnessError(f"{self.unit}: assumptions unsatisfiable/unknown when picking validation points")
        out.append(model_assignment(mdl, symbols))
        tries = 0
        while len(out) < n + 1 and tries < 40:
            tries += 1
            a = {}
            for name, s in symbols.items():
                if z3.is_bool(s):
                    a[name] = self.rng.random() < 0.5
                elif z3.is_int(s):
                    a[name] = self.rng.randint(0, 3)
                else:
                    a[name] = Fraction(self.rng.randint(-24, 24), 8)
            subs = [(s, sj.z(a[name]) if not z3.is_real(s) else sj.zr(a[name])) for name, s in symbols.items()]
            ok = True
            for c in assume:
                if c is True:
                    continue
                v = z3.simplify(z3.substitute(c, *subs))
                if not z3.is_true(v):
                    ok = False
                    break
            if ok:
                out.append(a)
        if len(out) < n + 1:
            # solver-guided: perturb the first model
            s = z3.Solver()
            s.add([c for c in assume if c is not True])
            first = out[0]
            reals = [sym for nm, sym in symbols.items() if z3.is_real(sym)]
            for sym in reals[:8]:
                s.add(sym != sj.zr(first[str(sym)]))
            if str(s.check()) == "sat":
                out.append(model_assignment(s.model(), symbols))
        return out

    def validate(self, name, sym_terms, concrete_fn, symbols, assume=(), n=2, rel=1e-9):
        """compare symbolic output terms evaluated on chosen inputs with the real float run.
        sym_terms: flat list of scalar terms; concrete_fn(values)->flat list of floats"""
        if self.replay_target is not None:
            return
        for a in self.pick_assignments(symbols, assume, n):
            subs = {symbols[k]: v for k, v in a.items()}
            obs = concrete_fn(a)
            if len(obs) != len(sym_terms):
                raise HarnessError(f"{self.unit}/{name}: translator validation shape mismatch {len(obs)} vs {len(sym_terms)}")
            for i, (t, o) in enumerate(zip(sym_terms, obs)):
                try:
                    e = sj.evaluate(t, subs)
                except ValueError:
                    # term with exp/log applications: evaluate numerically instead
                    try:
                        e = sj.eval_float(t, a)
                        rel = max(rel, 1e-7)
                    except (ValueError, KeyError, OverflowError, ZeroDivisionError):
                        continue
                self.tv_points += 1
                if isinstance(e, bool):
                    good = bool(o) == e
                    dev = 0.0 if good else 1.0
                else:
                    of, ef = float(o), float(e)
                    if math.isnan(of) or (math.isinf(of) and of != ef) or (math.isinf(ef) and of != ef):
                        # non-finite arithmetic (e.g. 0 * -inf) is outside the value model: the point
                        # says nothing about the translation; the obligations + replay decide
                        self.tv_skipped = getattr(self, "tv_skipped", 0) + 1
                        continue
                    if math.isinf(of) or math.isinf(ef):
                        good = of == ef
                        dev = 0.0 if good else float("inf")
                    else:
                        dev = abs(of - ef) / max(1.0, abs(ef))
                        good = dev <= rel
                if not good:
                    raise HarnessError(
                        f"{self.unit}/{name}: translator validation failed at output {i}: symbolic {e} vs real {o} "
                        f"inputs={ {k: str(v) for k, v in a.items()} }"
                    )
                self.tv_maxdev = max(self.tv_maxdev, dev)

    # -- result -----------------------------------------------------------------------
    def result(self, extra=None):
        n = len(self.obligations)
        res = {
            "unit": self.unit,
            "obligations": n,
            "discharged": sum(1 for o in self.obligations if o["verdict"] in ("unsat", "const")),
            "const": sum(1 for o in self.obligations if o["verdict"] == "const"),
            "nontrivial_distinct": sum(1 for o in self.obligations if o.get("nontrivial") and o.get("distinct", True) and o["verdict"] == "unsat"),
            "inconclusive": [
                {"name": o["name"], "reason": o.get("reason", "solver unknown/timeout")} for o in self.obligations if o["verdict"] == "unknown"
            ],
            "sat": [o["name"] for o in self.obligations if o["verdict"].startswith("sat")],
            "queries": self.queries,
            "solver_time_s": round(self.solver_time, 3),
            "wall_s": round(time.time() - self.t0, 2),
            "twins": {"checked": len(self.twins), "sat": sum(1 for r, _ in self.twins.values() if r == "sat")},
            "translator_validation": {"points": self.tv_points, "max_rel_dev": self.tv_maxdev},
            "paths": self.paths,
            "cross_solver": dict(self.cross),
            "violations": self.violations,
            "errors": self.errors,
            "functions": sorted(self.functions),
            "samples": [o for o in self.obligations if "claim" in o][:2],
            "notes": self.notes,
        }
        if extra:
            res.update(extra)
        return res


def replay_unit(fn, kwargs, prop, unit_name, obligation, values):
    """re-execute one stored counterexample against the real code; returns the discrepancy
    dict if it reproduces, else None"""
    import jax

    jax.config.update("jax_enable_x64", True)
    kwargs = dict(kwargs)
    kwargs.pop("_timeout_ms", None)
    rec = Recorder(prop, unit_name)
    rec.replay_target = (obligation, values)
    fn(rec, **kwargs)
    return rec.replay_outcome


def run_unit(fn, kwargs, prop, unit_name):
    """executed in the worker process"""
    import jax

    jax.config.update("jax_enable_x64", True)
    rec = Recorder(prop, unit_name, timeout_ms=int(kwargs.pop("_timeout_ms", 60000)))
    fe = FunctionsEntered()
    try:
        with fe:
            extra = fn(rec, **kwargs)
    except sj.Unsupported as e:
        rec.inconclusive("unit", f"Unsupported: {e}")
        extra = None
    except sj.PathCapExceeded as e:
        rec.inconclusive("unit", f"path cap exceeded: {e}")
        extra = None
    except HarnessError as e:
        rec.errors.append(f"HarnessError: {e}")
        extra = None
    except Exception as e:  # noqa: BLE001
        rec.errors.append(f"{type(e).__name__}: {e}\n{traceback.format_exc()[-1500:]}")
        extra = None
    rec.functions |= fe.names
    res = rec.result(extra if isinstance(extra, dict) else None)
    res["primitives"] = dict(getattr(rec, "primitives", {}))
    return res


def write_replay(prop, data):
    os.makedirs(os.path.join(REPLAY_DIR, prop), exist_ok=True)
    blob = json.dumps(jsonable(data), sort_keys=True, indent=1)
    h = hashlib.sha1(blob.encode()).hexdigest()[:12]
    path = os.path.join(REPLAY_DIR, prop, h + ".json")
    with open(path, "w") as f:
        f.write(blob)
    return path


if os.environ.get("VF_DEBUG"):
    _orig_prove = Recorder.prove

    def _dbg_prove(self, name, *a, **k):
        t = time.time()
        r = _orig_prove(self, name, *a, **k)
        dt = time.time() - t
        if dt > float(os.environ.get("VF_DEBUG")):
            print(f"   [{dt:6.2f}s] {name} -> {self.obligations[-1]['verdict']}", flush=True)
        return r

    Recorder.prove = _dbg_prove
