"""./check <ID> [--tier quick|thorough] [--replay PATH] [--jobs N] [--only SUBSTR]"""
from __future__ import annotations

import argparse
import concurrent.futures as cf
import importlib
import json
import multiprocessing as mp
import os
import sys
import time

VERIF = "/verif"


def _worker(prop, modname, fname, kwargs, unit_name):
    sys.path.insert(0, VERIF)
    from vf import harness

    mod = importlib.import_module(modname)
    return harness.run_unit(getattr(mod, fname), dict(kwargs), prop, unit_name)


def load_known():
    p = os.path.join(VERIF, "known_findings.json")
    if not os.path.exists(p):
        return []
    with open(p) as f:
        return json.load(f).get("findings", [])


def main(argv=None):
    ap = argparse.ArgumentParser()
    ap.add_argument("prop")
    ap.add_argument("--tier", default=os.environ.get("VERIF_TIER", "quick"))
    ap.add_argument("--replay")
    ap.add_argument("--jobs", type=int, default=int(os.environ.get("VERIF_JOBS", "16")))
    ap.add_argument("--only")
    ap.add_argument("--no-evidence", action="store_true")
    args = ap.parse_args(argv)
    prop = args.prop.upper()
    tier = args.tier if args.tier in ("quick", "thorough") else "quick"
    modname = f"vf.props.{prop.lower()}"
    sys.path.insert(0, VERIF)
    mod = importlib.import_module(modname)

    if args.replay:
        import jax

        jax.config.update("jax_enable_x64", True)
        from vf import harness

        with open(args.replay) as f:
            data = harness.unjson(json.load(f))
        allunits = {u[0]: u for t in ("quick", "thorough") for u in mod.units(t)}
        if data["unit"] not in allunits:
            print(f"unknown unit {data['unit']}")
            return 3
        uname, fname, kwargs = allunits[data["unit"]]
        out = harness.replay_unit(getattr(mod, fname), kwargs, prop, uname, data["obligation"], data["inputs"])
        if out is not None:
            print("observed:", out.get("observed"), "expected:", out.get("expected"), "what:", out.get("what"))
        print(("REPRODUCED " if out is not None else "NOT-REPRODUCED ") + f"property={prop} replay={args.replay}")
        return 1 if out is not None else 0

    t0 = time.time()
    os.environ.setdefault("VF_UNIT_BUDGET_S", "2400" if tier == "quick" else "7200")
    units = mod.units(tier)
    if args.only:
        units = [u for u in units if args.only in u[0]]
    results = []
    ctx = mp.get_context("spawn")
    jobs = max(1, min(args.jobs, len(units)))
    hard_errors = []
    with cf.ProcessPoolExecutor(max_workers=jobs, mp_context=ctx) as ex:
        futs = {ex.submit(_worker, prop, modname, fname, kwargs, uname): uname for (uname, fname, kwargs) in units}
        for fut in cf.as_completed(futs):
            uname = futs[fut]
            try:
                results.append(fut.result())
            except Exception as e:  # noqa: BLE001
                hard_errors.append(f"{uname}: worker failed: {type(e).__name__}: {e}")
    results.sort(key=lambda r: r["unit"])

    from vf import harness

    known = load_known()
    known_keys = {k["key"]: k for k in known if k.get("property") == prop and k.get("status") == "known"}
    violations, known_hits = [], []
    for r in results:
        for v in r["violations"]:
            if v["key"] in known_keys:
                known_hits.append(v)
            else:
                violations.append(v)
    errors = hard_errors + [e for r in results for e in r["errors"]]
    inconclusive = [(r["unit"], i) for r in results for i in r["inconclusive"]]

    for v in known_hits:
        print(f"KNOWN-FINDING: property={prop} {v['key']}: {known_keys[v['key']].get('what', '')}")
    reported = set()
    for k in known_keys:
        if k not in {v["key"] for v in known_hits}:
            print(f"NOTE: known finding {k} was not observed in this run (tier {tier})")
    for u, i in inconclusive:
        print(f"INCONCLUSIVE property={prop} obligation={u}/{i['name']} reason={i['reason'][:160]}")
    for e in errors:
        print("HARNESS-ERROR " + e.replace("\n", " | ")[:1500])
    vio_lines = []
    for v in violations:
        path = harness.write_replay(prop, v)
        if v["key"] in reported:
            continue
        reported.add(v["key"])
        vio_lines.append(f"VIOLATION property={prop} replay={path}")

    wall = time.time() - t0
    if not args.no_evidence and not args.only:
        write_evidence(prop, tier, mod, results, violations, known_hits, errors, wall)

    n_ob = sum(r["obligations"] for r in results)
    n_dis = sum(r["discharged"] for r in results)
    print(
        f"{prop} tier={tier}: units={len(results)} obligations={n_ob} discharged={n_dis} "
        f"inconclusive={len(inconclusive)} violations={len(violations)} known={len(known_hits)} "
        f"queries={sum(r['queries'] for r in results)} solver_s={sum(r['solver_time_s'] for r in results):.1f} wall_s={wall:.1f}"
    )
    if vio_lines:
        # every printed violation was reproduced against the real code in floats
        for l in vio_lines:
            print(l)
        return 1
    if errors:
        # a harness error alone is never reported as a violation
        return 3
    return 0


def write_evidence(prop, tier, mod, results, violations, known_hits, errors, wall):
    from vf import harness

    meta = getattr(mod, "META", {})
    n_ob = sum(r["obligations"] for r in results)
    n_dis = sum(r["discharged"] for r in results)
    prims = {}
    for r in results:
        for k, v in r.get("primitives", {}).items():
            prims[k] = prims.get(k, 0) + v
    funcs = sorted({f for r in results for f in r["functions"]})
    samples = [s for r in results for s in r["samples"]][:6]
    if not samples:
        samples = [{"unit": r["unit"], "obligations": r["obligations"]} for r in results[:3]] or [{"note": "no units"}]
    cov = {
        "explanation": meta.get("explanation", "bounded SMT-based checking of the real code")
        + " | Verdicts are z3 results over all real-valued inputs of the stated shapes (bounded; not a proof, not sampling).",
        "obligations": n_ob,
        "discharged": n_dis,
        "constant_folded": sum(r["const"] for r in results),
        "evaluations": sum(r["queries"] for r in results),
        "distinct_nontrivial": sum(r["nontrivial_distinct"] for r in results),
        "rule": "an obligation is non-trivial if its negation was sent to the solver with at least one free symbol "
        "(obligations that constant-fold to True are counted under constant_folded); distinct = distinct claim terms per unit",
        "queries": sum(r["queries"] for r in results),
        "solver_time_s": round(sum(r["solver_time_s"] for r in results), 2),
        "paths": sum(r.get("paths", 0) for r in results),
        "inconclusive": [{"unit": r["unit"], **i} for r in results for i in r["inconclusive"]][:50],
        "units": [
            {k: r[k] for k in ("unit", "obligations", "discharged", "queries", "solver_time_s", "wall_s", "paths") if k in r}
            | {"bounds": r.get("bounds"), "symbols": r.get("symbols")}
            for r in results
        ],
        "functions_encoded": funcs,
        "primitives": prims,
        "bounds": meta.get("bounds", ""),
        "templates": meta.get("templates", ""),
        "stubs": meta.get("stubs", []),
        "outside_claim": meta.get("outside", ""),
        "translator_validation": {
            "points": sum(r["translator_validation"]["points"] for r in results),
            "max_rel_dev": max([r["translator_validation"]["max_rel_dev"] for r in results] + [0.0]),
        },
        "cross_solver_cvc5": {k: sum(r.get("cross_solver", {}).get(k, 0) for r in results) for k in ("checked", "agree", "cvc5_unknown", "disagree")},
        "vacuity_twins": {
            "checked": sum(r["twins"]["checked"] for r in results),
            "sat": sum(r["twins"]["sat"] for r in results),
        },
        "samples": samples,
        "known_findings_observed": [v["key"] for v in known_hits],
        "harness_errors": errors[:10],
        "solver": "z3 " + __import__("z3").get_version_string() + " (deciding); cvc5 python wheel re-decides 2 obligations per unit",
        "exhaustive": False,
    }
    ev = {
        "property_id": prop,
        "tier": tier,
        "seed": harness.seed(),
        "level": "other",
        "coverage": cov,
        "assumptions": meta.get("assumptions", []) + [
            "floats are modelled as mathematical reals (rounding, overflow, float32 are outside the claim)",
            "z3 is trusted; the symbolic meanings of the JAX leaf primitives (vf/symjax.py) are validated on every run against the real float execution",
        ],
        "wall_s": round(wall, 2),
        "violations": len(violations),
    }
    os.makedirs(os.path.join(VERIF, "evidence"), exist_ok=True)
    with open(os.path.join(VERIF, "evidence", prop + ".json"), "w") as f:
        json.dump(harness.jsonable(ev), f, indent=1, sort_keys=True)


if __name__ == "__main__":
    sys.exit(main())
