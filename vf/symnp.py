"""E3 `symnp`: a small numpy look-alike whose arrays may have a *symbolic length* along the leading
axis (padded to the static maximum + a z3 Int length).  The real bodies of
lcm.state_space.create_combination_grid / _combine_masks / create_indexers_and_segments run on it
(the module is loaded a second time and its globals np / jnp are rebound to this module).

Only what those functions use is implemented; every primitive is validated against real numpy on
concrete masks on every run (see c17.validate_symnp).
"""
from __future__ import annotations

import itertools

import numpy as _np
import z3

from . import symjax as sj


class SymArray:
    """data: numpy object array (padded); length: None (static) or term for the valid leading length"""

    def __init__(self, data, length=None):
        self.data = _np.asarray(data, dtype=object) if not (isinstance(data, _np.ndarray) and data.dtype == object) else data
        self.length = length

    # -- numpy-ish attributes -----------------------------------------------------------
    @property
    def ndim(self):
        return self.data.ndim

    @property
    def size(self):
        if self.length is not None:
            raise sj.Unsupported("symnp: size of an array with symbolic length")
        return int(self.data.size)

    @property
    def shape(self):
        if self.length is None:
            return self.data.shape
        return (SymDim(self.length, self.data.shape[0]),) + self.data.shape[1:]

    def __len__(self):
        if self.length is None:
            return self.data.shape[0]
        return SymDim(self.length, self.data.shape[0])

    def valid(self, i):
        """is leading index i inside the array?"""
        if self.length is None:
            return True
        return sj._cmp("lt", i, self.length)

    # -- reductions ---------------------------------------------------------------------
    def any(self, axis=None):
        assert self.length is None
        if axis is None:
            axis = tuple(range(self.ndim))
        if isinstance(axis, int):
            axis = (axis,)
        keep = [d for d in range(self.ndim) if d not in axis]
        out = _np.empty(tuple(self.data.shape[d] for d in keep), dtype=object)
        for idx in _np.ndindex(*out.shape):
            acc = False
            for r in _np.ndindex(*[self.data.shape[d] for d in axis]):
                full = [None] * self.ndim
                for d, i in zip(keep, idx):
                    full[d] = i
                for d, i in zip(axis, r):
                    full[d] = i
                acc = sj.b_or(acc, self.data[tuple(full)])
            out[idx] = acc
        return SymArray(out)

    def cumsum(self):
        """flattened cumulative count (bools count as 0/1); padding rows count as 0"""
        flat = []
        acc = 0
        rowsize = int(_np.prod(self.data.shape[1:])) if self.ndim > 1 else 1
        for k, v in enumerate(self.data.reshape(-1)):
            row = k // rowsize
            if _is_boolish(v):
                acc = cnt_add(acc, sj.b_and(_as_bool(v), self.valid(row)))
            else:
                acc = sj._arith("add", acc, v)
            flat.append(acc)
        return SymArray(_np.array(flat + [None], dtype=object)[:-1], None if self.length is None else _mul_len(self.length, rowsize))

    def reshape(self, *shape):
        if len(shape) == 1 and isinstance(shape[0], (tuple, list)):
            shape = tuple(shape[0])
        if any(isinstance(s, SymDim) for s in shape):
            lead = shape[0]
            assert isinstance(lead, SymDim) and not any(isinstance(s, SymDim) for s in shape[1:])
            rest = tuple(int(s) for s in shape[1:])
            return SymArray(self.data.reshape((lead.max,) + rest), lead.term)
        return SymArray(self.data.reshape(tuple(int(s) for s in shape)), None)

    def __sub__(self, other):
        out = _np.empty(self.data.shape, dtype=object)
        for i in _np.ndindex(*self.data.shape):
            out[i] = sj._arith("sub", self.data[i], other)
        return SymArray(out, self.length)

    # -- indexing -----------------------------------------------------------------------
    def __getitem__(self, key):
        if isinstance(key, SymArray):
            return _compress(self, key)
        if isinstance(key, _np.ndarray) and key.dtype == bool:
            return _compress(self, SymArray(key.astype(object)))
        if self.length is not None:
            raise sj.Unsupported("symnp: basic indexing of an array with symbolic length")
        return SymArray(self.data[key], None)

    def __setitem__(self, key, value):
        if not isinstance(key, SymArray):
            raise sj.Unsupported("symnp: only boolean-mask assignment is modelled")
        _scatter_mask(self, key, value)

    def __getattr__(self, name):
        raise sj.Unsupported(f"symnp: ndarray.{name} is not modelled")

    def __array__(self, dtype=None, copy=None):
        return self.data


class SymDim:
    """a symbolic dimension: term with static maximum (behaves like an int where lcm needs it)"""

    def __init__(self, term, mx):
        self.term, self.max = term, int(mx)

    def __index__(self):
        raise TypeError("symbolic dimension")

    def __repr__(self):
        return f"SymDim({self.term},max={self.max})"


def cnt_add(acc, flag):
    """acc + (1 if flag else 0) as a plain z3 Int sum (never as an if-tree over integer constants:
    a sum of n indicator terms would get 2^n leaves)"""
    if flag is True:
        inc = 1
    elif flag is False:
        return acc
    else:
        inc = z3.If(flag, z3.IntVal(1), z3.IntVal(0))
    if isinstance(acc, int) and isinstance(inc, int):
        return acc + inc
    a = z3.IntVal(acc) if isinstance(acc, int) else acc
    b = z3.IntVal(inc) if isinstance(inc, int) else inc
    return a + b


def _mul_len(length, k):
    return sj._arith("mul", length, k) if k != 1 else length


def _is_boolish(v):
    return isinstance(v, (bool, _np.bool_)) or (isinstance(v, z3.ExprRef) and z3.is_bool(v))


def _as_bool(v):
    return bool(v) if isinstance(v, (bool, _np.bool_)) else v


def _count_terms(mask: SymArray):
    """running rank of each leading/flat position among the True positions"""
    return None


def _compress(arr: SymArray, mask: SymArray):
    """arr[mask]: mask covers the first mask.ndim axes of arr; result has symbolic leading length"""
    k = mask.ndim
    assert arr.data.shape[:k] == mask.data.shape, (arr.data.shape, mask.data.shape)
    lead = int(_np.prod(mask.data.shape))
    rest = arr.data.shape[k:]
    flat_arr = arr.data.reshape((lead,) + rest)
    flat_mask = mask.data.reshape(-1)
    rowsize_m = int(_np.prod(mask.data.shape[1:])) if mask.ndim > 1 else 1
    on = []
    for p in range(lead):
        m = _as_bool(flat_mask[p])
        if mask.length is not None:
            m = sj.b_and(m, mask.valid(p // rowsize_m))
        if arr.length is not None:
            rowsize_a = int(_np.prod(arr.data.shape[1:k])) if k > 1 else 1
            m = sj.b_and(m, arr.valid(p // rowsize_a))
        on.append(m)
    ranks = []
    acc = 0
    for p in range(lead):
        ranks.append(acc)
        acc = cnt_add(acc, on[p])
    total = acc
    out = _np.empty((lead,) + rest, dtype=object)
    boolish = arr.data.size > 0 and _is_boolish(arr.data.reshape(-1)[0])
    for j in range(lead):
        for r in _np.ndindex(*rest):
            val = False if boolish else FILL
            for p in range(lead - 1, j - 1, -1):
                val = sj.ite(sj.b_and(on[p], sj._cmp("eq", ranks[p], j)), flat_arr[(p,) + r], val)
            out[(j,) + r] = val
    return SymArray(out, total)


FILL = -7  # content of padding cells (never inside the valid length)


def _scatter_mask(target: SymArray, mask: SymArray, value):
    """target[mask] = value (value: SymArray with one entry per True position, in order, or a scalar)"""
    k = mask.ndim
    assert target.data.shape[:k] == mask.data.shape
    lead = int(_np.prod(mask.data.shape))
    flat_mask = mask.data.reshape(-1)
    rowsize_m = int(_np.prod(mask.data.shape[1:])) if mask.ndim > 1 else 1
    on = []
    for p in range(lead):
        m = _as_bool(flat_mask[p])
        if mask.length is not None:
            m = sj.b_and(m, mask.valid(p // rowsize_m))
        on.append(m)
    ranks, acc = [], 0
    for p in range(lead):
        ranks.append(acc)
        acc = cnt_add(acc, on[p])
    tflat = target.data.reshape((lead,) + target.data.shape[k:])
    if isinstance(value, SymArray):
        vflat = value.data.reshape((value.data.shape[0],) + value.data.shape[1:])
        nv = vflat.shape[0]
        for p in range(lead):
            for r in _np.ndindex(*tflat.shape[1:]):
                sel = sj.sym_index(lambda j: vflat[(j,) + r], nv, ranks[p]) if sj.is_sym(ranks[p]) else vflat[(int(ranks[p]),) + r] if int(ranks[p]) < nv else FILL
                tflat[(p,) + r] = sj.ite(on[p], sel, tflat[(p,) + r])
    else:
        for p in range(lead):
            for r in _np.ndindex(*tflat.shape[1:]):
                tflat[(p,) + r] = sj.ite(on[p], value, tflat[(p,) + r])
    target.data = tflat.reshape(target.data.shape)


# ---- module-level numpy look-alikes -------------------------------------------------------
ndarray = SymArray


def array(x, *a, **k):
    if isinstance(x, SymArray):
        return SymArray(x.data.copy(), x.length)
    arr = _np.asarray(x)
    out = _np.empty(arr.shape, dtype=object)
    for i in _np.ndindex(*arr.shape):
        v = arr[i]
        out[i] = v.item() if isinstance(v, _np.generic) else v
    return SymArray(out)


asarray = array


def full(shape, fill_value, *a, **k):
    if isinstance(shape, (int, SymDim)):
        shape = (shape,)
    shape = tuple(shape)
    if shape and isinstance(shape[0], SymDim):
        data = _np.empty((shape[0].max,) + tuple(int(s) for s in shape[1:]), dtype=object)
        data[...] = fill_value
        return SymArray(data, shape[0].term)
    data = _np.empty(tuple(int(s) for s in shape), dtype=object)
    data[...] = fill_value
    return SymArray(data)


def count_nonzero(a, axis=None):
    """returns SymDim-like int term (axis None) or a SymArray of counts"""
    if axis is None:
        acc = 0
        rowsize = int(_np.prod(a.data.shape[1:])) if a.ndim > 1 else 1
        for k, v in enumerate(a.data.reshape(-1)):
            acc = cnt_add(acc, sj.b_and(_as_bool(v), a.valid(k // rowsize)))
        return SymDim(acc, a.data.size) if sj.is_sym(acc) else int(acc)
    if isinstance(axis, int):
        axis = (axis,)
    keep = [d for d in range(a.ndim) if d not in axis]
    out = _np.empty(tuple(a.data.shape[d] for d in keep), dtype=object)
    for idx in _np.ndindex(*out.shape):
        acc = 0
        for r in _np.ndindex(*[a.data.shape[d] for d in axis]):
            fullidx = [None] * a.ndim
            for d, i in zip(keep, idx):
                fullidx[d] = i
            for d, i in zip(axis, r):
                fullidx[d] = i
            acc = cnt_add(acc, _as_bool(a.data[tuple(fullidx)]))
        out[idx] = acc
    return SymArray(out, a.length if 0 in keep else None)


def arange(n):
    if isinstance(n, SymDim):
        return SymArray(_np.array(list(range(n.max)), dtype=object), n.term)
    return SymArray(_np.array(list(range(int(n))), dtype=object))


def repeat(a, repeats):
    """np.repeat(a, repeats) with symbolic counts: result[k] = a[i] for the i with cum_{i-1} <= k < cum_i"""
    assert a.ndim == 1
    n = a.data.shape[0]
    counts = repeats.data if isinstance(repeats, SymArray) else _np.array([repeats] * n, dtype=object)
    valid = [a.valid(i) if (a.length is not None) else True for i in range(n)]
    cum = [0]
    for i in range(n):
        c = counts[i]
        if valid[i] is not True:
            c = z3.If(valid[i], sj.z(c), z3.IntVal(0))
        cum.append(c + cum[-1])
    total = cum[-1]
    mx = MAXREP[0]
    out = _np.empty((mx,), dtype=object)
    for k in range(mx):
        val = FILL
        for i in range(n - 1, -1, -1):
            val = sj.ite(sj.b_and(sj._cmp("le", cum[i], k), sj._cmp("lt", k, cum[i + 1])), a.data[i], val)
        out[k] = val
    return SymArray(out, total)


MAXREP = [16]  # static bound for np.repeat results (set by the harness to the number of mask cells)


def meshgrid(*arrays, indexing="xy"):
    res = _np.meshgrid(*[_np.asarray(a.data if isinstance(a, SymArray) else a, dtype=object) for a in arrays], indexing=indexing)
    return [SymArray(r) for r in res]


def logical_and(a, b):
    a = a if isinstance(a, SymArray) else array(a)
    b = b if isinstance(b, SymArray) else array(b)
    shape = _np.broadcast_shapes(a.data.shape, b.data.shape)
    aa, bb = _np.broadcast_to(a.data, shape), _np.broadcast_to(b.data, shape)
    out = _np.empty(shape, dtype=object)
    for i in _np.ndindex(*shape):
        out[i] = sj.b_and(_as_bool(aa[i]), _as_bool(bb[i]))
    return SymArray(out)


def __getattr__(name):
    raise sj.Unsupported(f"symnp: numpy.{name} is not modelled")
